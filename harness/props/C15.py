"""C15 — reaction-network store (CRNHyperGraph) under every history of edits.

case = {"kind": "hist", "n": <#networks>, "ops": [op, ...]}
op   = ["add", i, lhs, rhs, rule, eid|None]   lhs/rhs = [[label, count], ...] (iterable-of-pairs form)
       ["rmrxn", i, eid] | ["rmsp", i, x, prune] | ["merge", i, j, prefix] | ["copy", i, j]
       ["mol", i, x, m] | ["molmap", i, [[x, m], ...], strict, clear]
Observable after EVERY op: error code + for every network the five public
attributes (species, edges with insertion order, both indices, species_to_mol)
and incidence_matrix(sparse=True).
"""
import itertools

from ..coqrun import cstr, cZ, cnat, cbool, clist, cpair, copt
from ..tok import S

PID = "C15"
COQ_HEADER = ("From stdpp Require Import gmap strings.\nFrom SK Require Import lib.Tok model.C15_Model model.C15_Ext model.C15_View model.C15_ViewObs model.C15_Repr model.C15_Side model.C16_Model model.C15_Bulk.\n"
              "Local Open Scope string_scope.\n")
SHARD = 150
RULE = ("operation histories over k networks. Old language (add generated/explicit id, remove reaction, remove species +/- prune, "
        "merge +/- prefix, copy, assign/set molecule labels): exhaustive short suffixes after fixed preambles + seeded random histories; "
        "ALL sequences of depth 3 (quick) / 4 (thorough) over a reduced 9-op alphabet (3 species, 2 rules, 2 networks, a caller-chosen id that looks generated). "
        "Extended language (kinds h2-*: every input form of add_rxn, sides given as RXNSide objects of another network / caller-held objects "
        "edited afterwards, duck-typed merge, coefficient edits through returned edges, all queries: __contains__, __len__, iteration, "
        "species_list, get_edge + HyperEdge views, neighbors, paths, incidence_matrix sparse/dense + alias, get_mol; name overlaps "
        "species<->reaction ids, falsy labels, call styles positional/keyword/default): every op once after a preamble, "
        "query->edit->query triples, sampled pairs, copy-then-edit, random histories, one >=100-reaction history. "
        "View language (kinds h3-*, round 4): the extended language plus backend objects (_CRNGraphBackend and its three public subclasses, all "
        "option combinations) that cache a graph view of a network: every store op between two rounds of view accesses, sampled pairs, random "
        "histories, backends on empty networks / re-bound slots, in-place coefficient edits. "
        "Repr cases (kinds h4-*, round 5): a history of the extended language, then repr() of every network, stored reaction and caller-held side "
        "(ids with digits in front / in the middle / none / empty, equal sort keys, labels that are strings or integers). "
        "Side API (kinds h5-*): the mapping API of RXNSide on caller-held objects (constructor with empty iterables, set / incr / pop / update / copy, every read-only method). "
        "Bulk (kinds h6-*): parse_rxns in every input form (lines, tuples, Mapping, rules=) and add_rxn_from_str as operations of the histories, on non-empty networks, with repeated "
        "lines and the same reaction under several rules; the oracle replays each bulk call as the individual add_rxn calls it stands for and demands equal state. "
        "A case is non-trivial when at least two ops succeed and a remove/merge/copy op occurs; distinct = distinct op lists")
EXHAUSTIVE = {"quick": True, "thorough": True}     # exh-empty (depth 2, 51 ops) and exh-reduced (depth 3 / 4, 9 ops) are exhaustive sub-spaces
EXPLANATION = ("Theorems: invariant (indices exact, species = occurring (+kept), mol within species, ids unique, order list = key set) "
               "for every reachable world of the old and of the extended history language; frame/independence of networks and of caller-held "
               "side objects; queries never change the state; refinement to the id->reaction spec; exact label semantics (labels only for present "
               "species, never for reaction ids; last entry wins; no truthiness test); RXNSide normalisation = positive multiset of positive counts; "
               "incidence sparse and dense = products - reactants; neighbors exact; paths sound, complete, ordered; whole-history statement of the first clause; "
               "cached graph views (version count of the store + cache of the backend as a state machine): after any history of store-method calls the view handed "
               "out was built from a store that agrees with the current one on everything the export reads (refuted for in-place coefficient edits through a returned edge: known finding), and that graph IS the C16 export of the current network; "
               "the three __repr__ methods: repr(side) is read back by RXNSide.from_str on the label domain, the reaction lines of repr(H) are a permutation of the stored "
               "reactions sorted stably by (id without digits, number made of the digits). "
               "Correspondence: model state (and every answer handed back) compared with the implementation after every operation.")
TRUSTED_BASE = [
    "Coq 8.16.1 kernel + vm_compute (no native_compute)",
    "std++ 1.8.0 gmap/gset (axiom-free)",
    "hand-written models coq/model/C15_Model.v + coq/model/C15_Ext.v + coq/model/C15_View.v + coq/model/C15_Repr.v + coq/model/C15_Side.v + coq/model/C15_Bulk.v (on the text functions / parser model of coq/model/C16_Model.v) tied to synkit/CRN/Hypergraph/{hypergraph,rxn,hyperedge,backend}.py by the per-run correspondence",
    "harness encoders harness/props/C15.py + harness/gen/c15_ext.py + harness/gen/c15_view.py + harness/gen/c15_repr.py + harness/gen/c15_side.py + harness/gen/c15_bulk.py (op list -> Gallina literal; attributes/answers -> tok; str()/int() coercion of labels and counts; json.dumps of molecule labels)",
    "CPython dict/set semantics; copy.deepcopy",
]
ASSUMPTIONS = ["species labels and ids are printable ASCII strings", "molecule labels are strings",
               "RXNSide input given as iterable of (label, int) pairs"]
TESTED_NOT_PROVED = [
                     "copy / merge / add_rxn(RXNSide) independence (clause 'a copy is unaffected by later edits of the original'): the model has VALUE "
                     "semantics (networks and sides are values, an operation writes one slot), so C15_frame / C15_copy_spec / C15_added_objects_by_value hold by "
                     "construction of the model; sharing in the implementation shows as a correspondence / oracle failure on the next edit of either object "
                     "(every network and caller-held object is observed after every op) - that is what guards the clause",
                     "exactness of the species set for labels that were EVER kept is not a conjunct of Inv (its ghost `kept` only grows: 'occurring or ever kept'); it is "
                     "proved operation by operation instead (C15_species_shrink_only_where_allowed: what may be dropped; C15_remove_rxn_prunes / C15_remove_species_prunes: "
                     "what must be) and checked on every state by the oracle (species = occurring + kept-and-not-reoccurred)",
                     "__repr__ with molecule labels that are not strings or integers (str() of arbitrary objects is outside the model; oracle only)",
                     "insertion order inside a side (RXNSide.to_dict / expand order); sides are unordered maps in the model",
                     "numpy array construction of the dense matrix (the model has lists of rows)",
                     "set_mol_map with non-string keys (outside the model's domain; oracle only)"]

ERR = {None: 0, "KeyError": 1, "ValueError": 2}


# ------------------------------------------------------------------ implementation adapter

def _net_obs(H):
    sp_order, e_order, mp = H.incidence_matrix(sparse=True)
    return [
        S(sorted(H.species)),
        S([[k, e.rule, dict(e.reactants.to_dict()), dict(e.products.to_dict())] for k, e in H.edges.items()]),
        list(H.edges.keys()),
        S([[k, S(sorted(v))] for k, v in H.species_to_in_edges.items()]),
        S([[k, S(sorted(v))] for k, v in H.species_to_out_edges.items()]),
        S([[k, v] for k, v in H.species_to_mol.items()]),
        S([[s, e, int(v)] for (s, e), v in mp.items()]),
    ]


def _apply(nets, op):
    """Apply one op to the list of CRNHyperGraph objects; returns (error name | None, returned edge id | None)."""
    k = op[0]
    try:
        if k == "add":
            _, i, l, r, rule, eid = op
            e = nets[i].add_rxn([tuple(x) for x in l], [tuple(x) for x in r], rule=(rule or None), edge_id=eid)
            return None, e.id
        if k == "rmrxn":
            nets[op[1]].remove_rxn(op[2])
        elif k == "rmsp":
            nets[op[1]].remove_species(op[2], prune_orphans=op[3])
        elif k == "merge":
            nets[op[1]].merge(nets[op[2]], prefix_edges=op[3])
        elif k == "copy":
            nets[op[2]] = nets[op[1]].copy()
        elif k == "mol":
            nets[op[1]].assign_mol(op[2], op[3])
        elif k == "molmap":
            nets[op[1]].set_mol_map({a: b for a, b in op[2]}, strict=op[3], clear_existing=op[4])
        else:
            raise AssertionError(k)
        return None, None
    except KeyError:
        return "KeyError", None
    except ValueError:
        return "ValueError", None


def impl(case):
    if case.get("kind", "").startswith("h6"):
        from ..gen import c15_bulk
        return c15_bulk.impl6(case)
    if case.get("kind", "").startswith("h5"):
        from ..gen import c15_side
        return c15_side.impl5(case)
    if case.get("kind", "").startswith("h4"):
        from ..gen import c15_repr
        return c15_repr.impl4(case)
    if case.get("kind", "").startswith("h3"):
        from ..gen import c15_view
        return c15_view.impl3(case)
    if case.get("kind", "").startswith("h2"):
        from ..gen import c15_ext
        return c15_ext.impl2(case)
    from synkit.CRN.Hypergraph.hypergraph import CRNHyperGraph
    nets = [CRNHyperGraph() for _ in range(case["n"])]
    out = []
    for op in case["ops"]:
        er, _ = _apply(nets, op)
        out.append([ERR[er], [_net_obs(H) for H in nets]])
    return out


# ------------------------------------------------------------------ model encoder

def _side(l):
    return clist([cpair(cstr(s), cZ(c)) for s, c in l])


def _op(op):
    k = op[0]
    if k == "add":
        _, i, l, r, rule, eid = op
        return "OAdd %s %s %s %s %s" % (cnat(i), _side(l), _side(r), cstr(rule or ""), copt(None if eid is None else cstr(eid)))
    if k == "rmrxn":
        return "ORemoveRxn %s %s" % (cnat(op[1]), cstr(op[2]))
    if k == "rmsp":
        return "ORemoveSpecies %s %s %s" % (cnat(op[1]), cstr(op[2]), cbool(op[3]))
    if k == "merge":
        return "OMerge %s %s %s" % (cnat(op[1]), cnat(op[2]), cbool(op[3]))
    if k == "copy":
        return "OCopy %s %s" % (cnat(op[1]), cnat(op[2]))
    if k == "mol":
        return "OAssignMol %s %s %s" % (cnat(op[1]), cstr(op[2]), cstr(op[3]))
    if k == "molmap":
        return "OSetMolMap %s %s %s %s" % (cnat(op[1]), clist([cpair(cstr(a), cstr(b)) for a, b in op[2]]),
                                           cbool(op[3]), cbool(op[4]))
    raise AssertionError(k)


def coq_case(case):
    if case.get("kind", "").startswith("h6"):
        from ..gen import c15_bulk
        return c15_bulk.coq_case6(case)
    if case.get("kind", "").startswith("h5"):
        from ..gen import c15_side
        return c15_side.coq_case5(case)
    if case.get("kind", "").startswith("h4"):
        from ..gen import c15_repr
        return c15_repr.coq_case4(case)
    if case.get("kind", "").startswith("h3"):
        from ..gen import c15_view
        return c15_view.coq_case3(case)
    if case.get("kind", "").startswith("h2"):
        from ..gen import c15_ext
        return c15_ext.coq_case2(case)
    return "run %s %s" % (cnat(case["n"]), clist([_op(o) for o in case["ops"]]))


# ------------------------------------------------------------------ property oracle (independent reference)

def _norm_side(l):
    d = {}
    for s, c in l:
        if c > 0:
            d[s] = d.get(s, 0) + c
    return d


def _check_net(H, spec, kept, where):
    """The property's invariant, stated on the public attributes against the reference dict."""
    fails = []
    impl_edges = {k: (e.rule, dict(e.reactants.to_dict()), dict(e.products.to_dict())) for k, e in H.edges.items()}
    if impl_edges != spec:
        fails.append("stored reactions differ from the reference (%s): impl=%r ref=%r" % (where, impl_edges, spec))
    for k, e in H.edges.items():
        if e.id != k:
            fails.append("edge stored under %r carries id %r" % (k, e.id))
    occurring = set()
    for (_, l, r) in impl_edges.values():
        occurring |= set(l) | set(r)
    sp = set(H.species)
    # `kept` = the species the caller chose to keep when stripping them (remove_species(x, prune_orphans=False)) and that have not
    # entered a reaction since (a species that occurs again is an ordinary species: it goes when its last reaction goes)
    for (_, l, r) in spec.values():
        kept -= set(l) | set(r)
    if not occurring <= sp:
        fails.append("species set misses occurring species %r" % sorted(occurring - sp))
    if not sp <= occurring | kept:
        fails.append("species set has non-occurring, non-kept species %r" % sorted(sp - occurring - kept))
    if not kept <= sp:
        fails.append("species the caller chose to keep (remove_species(..., prune_orphans=False)) are missing from the species set: %r"
                     % sorted(kept - sp))
    for x in sp | set(H.species_to_in_edges) | set(H.species_to_out_edges):
        prod = {k for k, (_, l, r) in impl_edges.items() if x in r}
        cons = {k for k, (_, l, r) in impl_edges.items() if x in l}
        if set(H.species_to_in_edges.get(x, ())) != prod:
            fails.append("in-index of %r is %r, producers are %r" % (x, sorted(H.species_to_in_edges.get(x, ())), sorted(prod)))
        if set(H.species_to_out_edges.get(x, ())) != cons:
            fails.append("out-index of %r is %r, consumers are %r" % (x, sorted(H.species_to_out_edges.get(x, ())), sorted(cons)))
    if not set(H.species_to_mol) <= sp:
        fails.append("molecule labels for absent species %r" % sorted(set(H.species_to_mol) - sp))
    so, eo, mp = H.incidence_matrix(sparse=True)
    ref = {}
    for k, (_, l, r) in impl_edges.items():
        for x in set(l) | set(r):
            ref[(x, k)] = r.get(x, 0) - l.get(x, 0)
    if {k: int(v) for k, v in mp.items()} != ref or so != sorted(sp) or eo != sorted(impl_edges):
        fails.append("sparse incidence differs from products - reactants")
    _, _, dense = H.incidence_matrix(sparse=False)
    for (x, k), v in ref.items():
        if x in so and int(dense[so.index(x), eo.index(k)]) != v:
            fails.append("dense incidence entry (%s,%s)" % (x, k))
    return fails


def oracle(case):
    if case.get("kind", "").startswith("h6"):
        from ..gen import c15_bulk
        return c15_bulk.oracle6(case)
    if case.get("kind", "").startswith("h5"):
        from ..gen import c15_side
        return c15_side.oracle5(case)
    if case.get("kind", "").startswith("h4"):
        from ..gen import c15_repr
        return c15_repr.oracle4(case)
    if case.get("kind", "").startswith("h3"):
        from ..gen import c15_view
        return c15_view.oracle3(case)
    if case.get("kind", "").startswith("h2"):
        from ..gen import c15_ext
        return c15_ext.oracle2(case)
    import copy
    from synkit.CRN.Hypergraph.hypergraph import CRNHyperGraph
    n = case["n"]
    nets = [CRNHyperGraph() for _ in range(n)]
    spec = [dict() for _ in range(n)]          # id -> (rule, lhs, rhs)
    kept = [set() for _ in range(n)]
    mols = [dict() for _ in range(n)]
    fails = []
    for t, op in enumerate(case["ops"]):
        k = op[0]
        before = [set(s) for s in spec]
        er, rid = _apply(nets, op)
        i = op[1]
        if k == "add":
            _, _, l, r, rule, eid = op
            l, r = _norm_side(l), _norm_side(r)
            if er is None:
                if rid in spec[i]:
                    fails.append(dict(clause="id-unique", detail="op %d: add returned id %r which already names a stored reaction" % (t, rid)))
                if eid is not None and rid != eid:
                    fails.append(dict(clause="own-id", detail="op %d: explicit id %r stored as %r" % (t, eid, rid)))
                spec[i][rid] = (rule or "r", l, r)
            else:
                expect = "KeyError" if (eid is not None and eid in spec[i]) else ("ValueError" if not l and not r else None)
                if er != expect:
                    fails.append(dict(clause="add-error", detail="op %d: %r, expected %r" % (t, er, expect)))
        elif k == "rmrxn":
            if op[2] in spec[i]:
                del spec[i][op[2]]
                if er is not None:
                    fails.append(dict(clause="remove-error", detail="op %d: %r on a stored id" % (t, er)))
            elif er != "KeyError":
                fails.append(dict(clause="remove-error", detail="op %d: removing a missing id did not raise KeyError" % t))
        elif k == "rmsp":
            x = op[2]
            present = x in nets[i].species or er is None
            if er is None:
                new = {}
                for eid, (rule, l, r) in spec[i].items():
                    l2 = {a: c for a, c in l.items() if a != x}
                    r2 = {a: c for a, c in r.items() if a != x}
                    if l2 or r2:
                        new[eid] = (rule, l2, r2)
                spec[i] = new
                if not op[3]:
                    kept[i].add(x)
                else:
                    kept[i].discard(x)
            elif er != "KeyError":
                fails.append(dict(clause="remove-species-error", detail="op %d: %r" % (t, er)))
        elif k == "merge":
            j = op[2]
            other = list(spec[j].items()) if j != i else list(spec[i].items())
            if er is None:
                cur = {kk: (e.rule, dict(e.reactants.to_dict()), dict(e.products.to_dict())) for kk, e in nets[i].edges.items()}
                old = spec[i] if j != i else dict(other)
                for kk, v in old.items():
                    if cur.get(kk) != v:
                        fails.append(dict(clause="merge-preserves", detail="op %d: merge changed or lost own reaction %r" % (t, kk)))
                newids = [kk for kk in cur if kk not in old]
                if sorted(map(repr, (cur[kk] for kk in newids))) != sorted(map(repr, (v for _, v in other))):
                    fails.append(dict(clause="merge-adds", detail="op %d: merged reactions are not exactly the other network's" % t))
                spec[i] = cur if not fails else spec[i]
            else:
                fails.append(dict(clause="merge-error", detail="op %d: merge raised %r" % (t, er)))
        elif k == "copy":
            j = op[2]
            spec[j] = copy.deepcopy(spec[i])
            kept[j] = set(kept[i])
        # after every op: the whole invariant on every network (covers copy / merge independence)
        for q in range(n):
            for msg in _check_net(nets[q], spec[q], kept[q], "net %d after op %d %r" % (q, t, op)):
                fails.append(dict(clause="invariant", detail=msg))
        if fails:
            break
    return fails[:3]


def shrink(case, fl):
    ops = list(case["ops"])
    changed = True
    while changed:
        changed = False
        for k in range(len(ops)):
            cand = dict(case, ops=ops[:k] + ops[k + 1:])
            try:
                if oracle(cand):
                    ops = cand["ops"]
                    changed = True
                    break
            except Exception:
                pass
    return dict(case, ops=ops, skip=0, lite=False, name=case.get("name", "") + "(shrunk)") if case.get("kind", "").startswith(("h2", "h3", "h4", "h5", "h6")) \
        else dict(case, ops=ops, name=case.get("name", "") + "(shrunk)")


def neighbours(case, rng):
    out = []
    for k in range(len(case["ops"])):
        out.append(dict(case, ops=case["ops"][:k + 1], name="prefix"))
    return out


def nontrivial(case, obs):
    ok = sum(1 for o in obs if o[0] == 0)
    return ok >= 2 and any(o[0] in ("rmrxn", "rmsp", "merge", "copy") for o in case["ops"])


def distribution(cases, obss):
    kinds, errs, lens = {}, {0: 0, 1: 0, 2: 0}, {}
    for c, obs in zip(cases, obss):
        lens[len(c["ops"])] = lens.get(len(c["ops"]), 0) + 1
        for o in c["ops"]:
            kk = o[0] if o[0] != "q" else "q:" + o[2]
            kinds[kk] = kinds.get(kk, 0) + 1
        for o in obs:
            if isinstance(o, list) and o and isinstance(o[0], int):
                errs[o[0]] = errs.get(o[0], 0) + 1
    return dict(op_kinds=kinds, results={"ok": errs.get(0, 0), "KeyError": errs.get(1, 0), "ValueError": errs.get(2, 0)},
                history_lengths={str(k): v for k, v in sorted(lens.items())})


# ------------------------------------------------------------------ generators

RXNS = [([["A", 1]], [["B", 1]]), ([["A", 1], ["B", 1]], [["C", 2]]), ([["C", 1]], [["A", 1]]),
        ([["A", 1], ["C", 1]], [["B", 1], ["C", 1]])]
PRE = [["add", 0, [["A", 1]], [["B", 1]], "r", None], ["add", 0, [["B", 2]], [["C", 1]], "q", "x"],
       ["add", 1, [["C", 1]], [["A", 1], ["B", 1]], "r", "r_1"], ["add", 1, [["B", 1]], [], "r", None]]


def alphabet():
    ops = []
    for (l, r) in RXNS:
        for rule in ("r", "q"):
            for eid in (None, "r_1", "x"):
                ops.append(["add", 0, l, r, rule, eid])
    ops.append(["add", 0, [], [], "r", None])
    ops.append(["add", 0, [["A", 0]], [["B", -1]], "r", "y"])
    for (l, r) in RXNS[:2]:
        for eid in (None, "r_2"):
            ops.append(["add", 1, l, r, "r", eid])
    for e in ("r_1", "q_1", "x"):
        ops.append(["rmrxn", 0, e])
    ops.append(["rmrxn", 1, "r_1"])
    for x in ("A", "B", "C"):
        for p in (True, False):
            ops.append(["rmsp", 0, x, p])
    ops.append(["rmsp", 1, "B", True])
    for p in (True, False):
        ops += [["merge", 0, 1, p], ["merge", 1, 0, p]]
    ops.append(["merge", 0, 0, False])
    ops += [["copy", 0, 1], ["copy", 1, 0], ["mol", 0, "A", "m1"], ["molmap", 0, [["B", "m2"], ["Z", "m3"]], False, True],
            ["molmap", 0, [["Z", "m3"]], True, False]]
    return ops


def reduced_alphabet():
    """9 ops over 3 species / 2 rules / 2 networks covering every operation of the property text (add with generated and with a
    caller-chosen look-alike id, remove reaction, remove species with and without pruning, merge, copy): small enough for
    EXHAUSTIVE depth 3 (quick, 729 + shorter) and depth 4 (thorough, 6 561 + shorter) — the property's own quantifier."""
    return [["add", 0, [["A", 1]], [["B", 1]], "r", None],
            ["add", 0, [["A", 1], ["B", 1]], [["C", 2]], "q", None],
            ["add", 0, [["C", 1]], [["A", 1]], "r", "r_1"],
            ["rmrxn", 0, "r_1"],
            ["rmsp", 0, "A", True],
            ["rmsp", 0, "B", False],
            ["merge", 0, 1, True],
            ["copy", 0, 1],
            ["add", 1, [["B", 1]], [["C", 1]], "r", None]]


def _rand_hist(rng, maxlen, nsp, n):
    sp = ["A", "B", "C", "D", "E", "F2", "G_1"][:nsp]
    rules = ["r", "q", "r_1", ""]
    ids = ["r_1", "r_2", "q_1", "x", "r_1_1", "r_10"]
    ops = []
    L = rng.randint(3, maxlen)
    known_ids = set(ids)
    for _ in range(L):
        i = rng.randrange(n)
        z = rng.random()
        if z < 0.45:
            def side():
                return [[rng.choice(sp), rng.choice([1, 1, 1, 2, 3, 0, -1, 12])] for _ in range(rng.choice([0, 1, 1, 2, 2, 3]))]
            eid = rng.choice([None, None, None] + ids)
            ops.append(["add", i, side(), side(), rng.choice(rules), eid])
        elif z < 0.6:
            ops.append(["rmrxn", i, rng.choice(ids + ["r_3", "q_2", "r_4", "_1"])])
        elif z < 0.75:
            ops.append(["rmsp", i, rng.choice(sp + ["Z"]), rng.random() < 0.5])
        elif z < 0.85:
            ops.append(["merge", i, rng.randrange(n), rng.random() < 0.5])
        elif z < 0.92:
            ops.append(["copy", i, rng.randrange(n)])
        elif z < 0.97:
            ops.append(["mol", i, rng.choice(sp), rng.choice(["m1", "m2"])])
        else:
            ops.append(["molmap", i, [[rng.choice(sp + ["Z"]), "mm"] for _ in range(rng.randint(0, 3))],
                        rng.random() < 0.5, rng.random() < 0.5])
    return ops


def gen_cases(tier, rng):
    A = alphabet()
    cases = []
    # exhaustive suffixes
    depth_empty = 2
    for seq in itertools.product(A, repeat=depth_empty):
        cases.append(dict(kind="exh-empty", n=2, ops=[list(o) for o in seq]))
    if tier == "quick":
        # after the preamble: all single ops and a seeded sample of pairs
        for o in A:
            cases.append(dict(kind="exh-pre", n=2, ops=PRE + [o]))
        pairs = list(itertools.product(A, repeat=2))
        for seq in rng.sample(pairs, 1200):
            cases.append(dict(kind="sample-pre", n=2, ops=PRE + [list(o) for o in seq]))
        nrand, maxlen = 600, 40
    else:
        for seq in itertools.product(A, repeat=2):
            cases.append(dict(kind="exh-pre", n=2, ops=PRE + [list(o) for o in seq]))
        triples = list(itertools.product(A, repeat=3))
        for seq in rng.sample(triples, 16000):      # round 5: 30000 -> 16000 to make room for exh-reduced (6 561) and the h3 / h4 kinds
            cases.append(dict(kind="sample-empty3", n=2, ops=[list(o) for o in seq]))
        nrand, maxlen = 3500, 60      # 6000 histories of <= 60 ops held ~3.5 GB of observables in the main process
    # the property's own quantifier: ALL sequences up to depth 3 (quick) / 4 (thorough) over the reduced alphabet (a sequence of
    # depth d also observes all its prefixes: only the full-depth sequences are generated)
    RA = reduced_alphabet()
    for seq in itertools.product(RA, repeat=3 if tier == "quick" else 4):
        cases.append(dict(kind="exh-reduced", n=2, ops=[list(o) for o in seq]))
    for k in range(nrand):
        cases.append(dict(kind="random", n=3, ops=_rand_hist(rng, maxlen, rng.choice([3, 4, 7]), 3)))
    from ..gen import c15_ext
    cases += c15_ext.gen_cases2(tier, rng)
    from ..gen import c15_view
    cases += c15_view.gen_cases3(tier, rng)
    from ..gen import c15_repr
    cases += c15_repr.gen_cases4(tier, rng)
    from ..gen import c15_side
    cases += c15_side.gen_cases5(tier, rng)
    from ..gen import c15_bulk
    cases += c15_bulk.gen_cases6(tier, rng)
    return cases

LEVEL_TEXT = ("Machine-checked proof (Coq) over an executable model of CRNHyperGraph: the store invariant (indices exact, species = occurring "
              "species plus explicitly kept ones, molecule labels within species, insertion-order list = key set, no empty reaction) holds in "
              "every world reachable by any sequence of add/remove/remove-species/merge/copy/label operations on any number of networks; "
              "operations on one network never change another (copy / merge independence); stored reactions are only changed as the abstract "
              "id->reaction specification prescribes; incidence (sparse and dense) = products - reactants. Round 3: the same for the extended "
              "history language covering the whole public surface (all input forms, RXNSide objects passed in, duck-typed merge, coefficient "
              "edits, every query): queries never change the state, labels are stored exactly for present species and never for reaction ids, "
              "neighbors exact, paths sound, complete and ordered. Round 4: the cached graph views of a network (backend objects holding a reference to "
              "the store) as a state machine over the store's version count: a view handed out after any history of store-method calls is current. The model is tied to the Python code by comparing the complete public state and every answer after "
              "every operation of thousands of generated histories on every run.")
LEVEL_NOTE = ("Trusted: Coq kernel + vm_compute, std++; the hand-written model and the harness encoders; CPython dict/set/deepcopy semantics. "
              "Tested only: numpy construction of the dense matrix; parse_rxns / add_rxn_from_str belong to C16.")
