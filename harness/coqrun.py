"""Coq side of the harness: build, assumption audit, model evaluation by vm_compute.

Everything runs under shell-level timeouts.  The Coq project lives in /verif/coq
with the single logical root  -Q . SK  (files are SK.lib.X, SK.model.X, ...).
"""
import fcntl
import glob
import os
import re
import subprocess
import sys
import time
from concurrent.futures import ThreadPoolExecutor

VERIF = os.path.dirname(os.path.dirname(os.path.abspath(__file__)))
COQ = os.path.join(VERIF, "coq")
WORK = os.path.join(VERIF, ".work")

GATE_WORDS = [
    r"\bAdmitted\b", r"\badmit\b", r"\bAxiom\b", r"\bAxioms\b", r"\bParameter\b", r"\bParameters\b",
    r"\bConjecture\b", r"\bAdmit Obligations\b", r"Unset Guard", r"bypass_check",
    r"type-in-type", r"impredicative-set", r"Unset Universe Checking",
    r"Unset Positivity", r"\bgive_up\b",
]


def _strip_comments(src: str) -> str:
    """Remove (nested) Coq comments so that the gate does not trip on prose."""
    out = []
    depth = 0
    i = 0
    n = len(src)
    in_str = False
    while i < n:
        if depth == 0 and src[i] == '"':
            in_str = not in_str
            out.append(src[i])
            i += 1
        elif not in_str and src.startswith("(*", i):
            depth += 1
            i += 2
        elif not in_str and depth > 0 and src.startswith("*)", i):
            depth -= 1
            i += 2
        else:
            if depth == 0:
                out.append(src[i])
            i += 1
    return "".join(out)


def v_files():
    fs = []
    for sub in ("lib", "model", "proof", "props"):
        fs += sorted(glob.glob(os.path.join(COQ, sub, "*.v")))
    return fs


def grep_gate(files=None):
    """Return list of (file, line, word) hits for forbidden vernacular outside comments."""
    hits = []
    for f in files or v_files():
        src = _strip_comments(open(f).read())
        for ln, line in enumerate(src.splitlines(), 1):
            for w in GATE_WORDS:
                if re.search(w, line):
                    hits.append((os.path.relpath(f, VERIF), ln, w))
    # Section-free Variable/Hypothesis: checked structurally
    for f in files or v_files():
        src = _strip_comments(open(f).read())
        depth = 0
        for ln, line in enumerate(src.splitlines(), 1):
            if re.match(r"\s*Section\s+\w+", line):
                depth += 1
            elif re.match(r"\s*End\s+\w+", line) and depth > 0:
                depth -= 1
            elif depth == 0 and re.match(r"\s*(Variable|Variables|Hypothesis|Hypotheses|Context)\b", line):
                hits.append((os.path.relpath(f, VERIF), ln, "Variable/Hypothesis outside Section"))
    return hits


class Lock:
    def __init__(self, name="build"):
        os.makedirs(WORK, exist_ok=True)
        self.path = os.path.join(WORK, name + ".lock")

    def __enter__(self):
        self.f = open(self.path, "w")
        fcntl.flock(self.f, fcntl.LOCK_EX)
        return self

    def __exit__(self, *a):
        fcntl.flock(self.f, fcntl.LOCK_UN)
        self.f.close()


def ensure_makefile():
    """(Re)generate _CoqProject and Makefile when the set of .v files changed."""
    files = [os.path.relpath(f, COQ) for f in v_files()]
    proj = "-Q . SK\n-arg -w -arg -notation-overridden,-deprecated-hint-without-locality,-deprecated-instance-without-locality,-ambiguous-paths,-redundant-canonical-projection\n" + "\n".join(files) + "\n"
    p = os.path.join(COQ, "_CoqProject")
    old = open(p).read() if os.path.exists(p) else None
    if old != proj or not os.path.exists(os.path.join(COQ, "Makefile")):
        open(p, "w").write(proj)
        subprocess.run(["coq_makefile", "-f", "_CoqProject", "-o", "Makefile"], cwd=COQ, check=True,
                       stdout=subprocess.DEVNULL, stderr=subprocess.DEVNULL)


def make(targets, timeout=3000, jobs=16):
    """Build the given .vo targets (paths relative to coq/).  Returns (ok, log)."""
    with Lock():
        ensure_makefile()
        cmd = ["timeout", str(timeout), "make", "-j", str(jobs)] + list(targets)
        r = subprocess.run(cmd, cwd=COQ, stdout=subprocess.PIPE, stderr=subprocess.STDOUT, text=True)
    return r.returncode == 0, r.stdout


def make_all(timeout=3000):
    with Lock():
        ensure_makefile()
        r = subprocess.run(["timeout", str(timeout), "make", "-j", "16"], cwd=COQ, stdout=subprocess.PIPE,
                           stderr=subprocess.STDOUT, text=True)
    return r.returncode == 0, r.stdout


THM_RE = re.compile(r"^\s*(Theorem|Lemma|Corollary|Example|Fact|Proposition)\s+([A-Za-z0-9_']+)", re.M)
PA_RE = re.compile(r"Print Assumptions\s+([A-Za-z0-9_'.]+)\s*\.")


def audit_props(pid, timeout=600, allow=()):
    """Compile props/<pid>.v (its dependencies are built first) and audit it.

    Returns dict(obligations, discharged, theorems=[{name, closed, axioms}], ok, log).
    A theorem is discharged iff the file compiled, the theorem has a matching
    Print Assumptions and that reports 'Closed under the global context' (or only
    allow-listed standard-library axioms)."""
    rel = os.path.join("props", pid + ".v")
    path = os.path.join(COQ, rel)
    res = dict(obligations=0, discharged=0, theorems=[], ok=False, log="")
    if not os.path.exists(path):
        res["log"] = "missing " + rel
        return res
    src = _strip_comments(open(path).read())
    thms = [m.group(2) for m in THM_RE.finditer(src) if m.group(1) == "Theorem"]
    pas = PA_RE.findall(src)
    res["obligations"] = len(thms)
    # the props file may contain only Theorem / exact / Print Assumptions (+ imports)
    ok_dep, log = make([rel.replace(".v", ".vo")], timeout=timeout)
    # run coqc on the props file itself to capture Print Assumptions output
    with Lock():
        r = subprocess.run(["timeout", str(timeout), "coqc", "-Q", ".", "SK", "-w", "none", rel], cwd=COQ,
                           stdout=subprocess.PIPE, stderr=subprocess.STDOUT, text=True)
    res["log"] = (log[-3000:] if not ok_dep else "") + r.stdout[-6000:]
    compiled = ok_dep and r.returncode == 0
    blocks = _parse_assumption_blocks(r.stdout) if compiled else []
    by_name = {}
    if compiled and len(blocks) == len(pas):
        for name, b in zip(pas, blocks):
            by_name[name.split(".")[-1]] = b
    for t in thms:
        b = by_name.get(t)
        if b is None:
            res["theorems"].append(dict(name=t, closed=False, axioms=["<no Print Assumptions / not compiled>"]))
            continue
        closed = b == [] or all(any(a.startswith(x) for x in allow) for a in b)
        res["theorems"].append(dict(name=t, closed=closed, axioms=b))
        if closed:
            res["discharged"] += 1
    res["ok"] = compiled and res["obligations"] > 0 and res["discharged"] == res["obligations"]
    return res


def _parse_assumption_blocks(out):
    """Split coqc output into one block per Print Assumptions: [] if closed else list of axiom names."""
    blocks = []
    cur = None
    for line in out.splitlines():
        if line.startswith("Closed under the global context"):
            if cur is not None:
                blocks.append(cur)
                cur = None
            blocks.append([])
        elif line.startswith("Axioms:") or line.startswith("Section Variables:"):
            if cur is not None:
                blocks.append(cur)
            cur = []
        elif cur is not None:
            m = re.match(r"^([A-Za-z_][A-Za-z0-9_'.]*)\s*:", line)
            if m:
                cur.append(m.group(1))
            elif line.strip() == "" or line.startswith(" "):
                pass
            else:
                blocks.append(cur)
                cur = None
    if cur is not None:
        blocks.append(cur)
    return blocks


# ---------------------------------------------------------------- model evaluation

_TOK = re.compile(r"\[|\]|-?\d+")


def parse_tok(text):
    """Parse the printed form of a [tok] value into nested Python lists / ints.
    Only brackets and integers carry information: I n -> n ; L [..] -> [..]."""
    stack = [[]]
    for t in _TOK.findall(text):
        if t == "[":
            stack.append([])
        elif t == "]":
            x = stack.pop()
            stack[-1].append(x)
        else:
            stack[-1].append(int(t))
    if len(stack) != 1 or len(stack[0]) != 1:
        raise ValueError("unparsable tok: " + text[:200])
    return stack[0][0]


def _run_shard(args):
    idx, path, timeout = args
    r = subprocess.run(["timeout", str(timeout), "coqc", "-Q", COQ, "SK", "-w", "none", path],
                       stdout=subprocess.PIPE, stderr=subprocess.PIPE, text=True, cwd=os.path.dirname(path))
    return idx, r.returncode, r.stdout, r.stderr


def eval_terms(pid, header, terms, shard=300, jobs=None, timeout=900, tag="", digest=False):
    """Evaluate Gallina terms of type tok with vm_compute.
    digest=False: returns the parsed values; digest=True: returns the 63-bit
    digests (lib/Tok.v hash) as ints.  Failed shards give ('ERR', message) entries."""
    if not terms:
        return []
    if jobs is None:  # parallel coqc shards; VERIF_JOBS lowers the memory peak (each coqc holds 0.3-0.5 GB)
        jobs = max(1, int(os.environ.get("VERIF_JOBS", "16")))
    wd = os.path.join(WORK, "%s-%d%s" % (pid, os.getpid(), tag))
    os.makedirs(wd, exist_ok=True)
    shards = []
    for k in range(0, len(terms), shard):
        name = "cases_%s_%d" % (pid, k // shard)
        path = os.path.join(wd, name + ".v")
        with open(path, "w") as f:
            f.write(header + "\nSet Printing Width 1000000. Set Printing Depth 10000000.\n")
            for t in terms[k:k + shard]:
                if digest:
                    f.write("Eval vm_compute in (SK.lib.Tok.hash (%s)).\n" % t)
                else:
                    f.write("Eval vm_compute in (%s).\n" % t)
        shards.append((k, path, timeout))
    results = [None] * len(terms)
    with ThreadPoolExecutor(max_workers=jobs) as ex:
        for k, rc, out, err in ex.map(_run_shard, shards):
            n = min(shard, len(terms) - k)
            if digest:
                vals = re.findall(r"=\s*(0x[0-9a-fA-F]+|\d+)%uint63", out)
                conv = lambda v: int(v, 0)
            else:
                parts = re.split(r"\n\s*:\s*tok\s*(?:\n|$)", out)
                vals = [p.split("=", 1)[1] for p in parts if "=" in p]
                conv = parse_tok
            for j in range(n):
                if j < len(vals) and (rc == 0 or j < len(vals) - 1):
                    results[k + j] = conv(vals[j])
                else:
                    results[k + j] = ("ERR", "coqc rc=%d: %s" % (rc, (err or out)[-1500:]))
    for f in glob.glob(os.path.join(wd, "*")):
        try:
            os.remove(f)
        except OSError:
            pass
    try:
        os.rmdir(wd)
    except OSError:
        pass
    return results


# ---------------------------------------------------------------- literal helpers

def cN(n):
    assert isinstance(n, int) and n >= 0
    return "%d%%N" % n


def cZ(n):
    return "(%d)%%Z" % n


def cnat(n):
    assert 0 <= n < 5000
    return "%d%%nat" % n


def cbool(b):
    return "true" if b else "false"


def cstr(s):
    assert all(32 <= ord(c) < 127 for c in s), s
    return '"%s"%%string' % s.replace('"', '""')


def clist(items):
    return "[" + "; ".join(items) + "]"


def cpair(*xs):
    return "(" + ", ".join(xs) + ")"


def copt(x):
    return "None" if x is None else "(Some %s)" % x
