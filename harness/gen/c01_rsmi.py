"""C01/C02: corpus reactions and reproducible rewritings of a mapped reaction SMILES
(DESIGN.md section 3 "Reproducible rewritings"): every random choice comes from the harness PRNG.

All RDKit imports are inside functions (the manifest generator imports harness modules with a plain interpreter).
"""
import json
import os
import re

_MAP = re.compile(r":(\d+)\]")


def repo():
    return os.environ.get("VERIF_REPO", "/repo")


_CORPUS = None


def load_corpus():
    """[(source, index, rsmi)] for Data/Testcase/graph.pkl.gz (100) and Data/ecoli.json.gz (274, plain JSON)."""
    global _CORPUS
    if _CORPUS is None:
        from synkit.IO.data_io import load_from_pickle
        out = []
        for i, d in enumerate(load_from_pickle(os.path.join(repo(), "Data", "Testcase", "graph.pkl.gz"))):
            out.append(("uspto", i, d["smart"]))
        raw = open(os.path.join(repo(), "Data", "ecoli.json.gz"), "rb").read()
        try:
            import gzip
            raw = gzip.decompress(raw)
        except Exception:
            pass
        for i, d in enumerate(json.loads(raw)):
            out.append(("ecoli", i, d["smart"]))
        _CORPUS = out
    return _CORPUS


def well_formed(rsmi):
    """exactly one '>>' and no empty '.'-fragment (28 ecoli entries violate this: the malformed stream)."""
    if rsmi.count(">>") != 1 or rsmi.count(">") != 2:
        return False
    a, b = rsmi.split(">>")
    return all(f != "" for f in a.split(".") + b.split("."))


def map_numbers(rsmi):
    return sorted({int(m) for m in _MAP.findall(rsmi)})


def renumber_maps(rsmi, rng):
    """Apply one PRNG permutation (into 1..n+3) to the atom-map numbers of both sides (textual)."""
    ms = map_numbers(rsmi)
    new = rng.sample(range(1, len(ms) + 4), len(ms))
    table = dict(zip(ms, new))
    return _MAP.sub(lambda m: ":%d]" % table[int(m.group(1))], rsmi)


def _reroot_side(side, rng):
    from rdkit import Chem
    mol = Chem.MolFromSmiles(side, sanitize=False)
    if mol is None:
        raise ValueError("unparsable side")
    perm = list(range(mol.GetNumAtoms()))
    rng.shuffle(perm)
    mol = Chem.RenumberAtoms(mol, perm)
    return Chem.MolToSmiles(mol, canonical=False)


def reroot(rsmi, rng):
    """Re-root / re-order the atoms of each side: Chem.RenumberAtoms under a PRNG permutation, then a
    non-canonical writer (never RDKit's doRandom)."""
    a, b = rsmi.split(">>")
    return _reroot_side(a, rng) + ">>" + _reroot_side(b, rng)


def shuffle_fragments(rsmi, rng):
    a, b = rsmi.split(">>")
    fa, fb = a.split("."), b.split(".")
    rng.shuffle(fa)
    rng.shuffle(fb)
    return ".".join(fa) + ">>" + ".".join(fb)


def reverse(rsmi):
    a, b = rsmi.split(">>")
    return b + ">>" + a


REWRITES = ("renum", "reroot", "frag", "rev")


def rewrite(rsmi, kind, rng):
    if kind == "renum":
        return renumber_maps(rsmi, rng)
    if kind == "reroot":
        return reroot(rsmi, rng)
    if kind == "frag":
        return shuffle_fragments(rsmi, rng)
    if kind == "rev":
        return reverse(rsmi)
    raise AssertionError(kind)


# ------------------------------------------------------------------ independent reading of a mapped reaction
# (plain RDKit, no SynKit code): used by the oracles as the reference for "atom-map-equivalent"

def read_side(side):
    """-> (nodes {map: (symbol, charge, total H, aromatic)}, edges {frozenset(maps): order}, n_unmapped, dup)
    or None when RDKit cannot read / sanitise the side."""
    from rdkit import Chem
    mol = Chem.MolFromSmiles(side, sanitize=False)
    if mol is None:
        return None
    try:
        Chem.SanitizeMol(mol)
    except Exception:
        return None
    nodes, unm, dup = {}, 0, False
    for a in mol.GetAtoms():
        k = a.GetAtomMapNum()
        if k == 0:
            unm += 1
            continue
        if k in nodes:
            dup = True
        nodes[k] = (a.GetSymbol(), a.GetFormalCharge(), a.GetTotalNumHs(), a.GetIsAromatic())
    edges = {}
    for b in mol.GetBonds():
        u, v = b.GetBeginAtom().GetAtomMapNum(), b.GetEndAtom().GetAtomMapNum()
        if u and v:
            edges[frozenset((u, v))] = b.GetBondTypeAsDouble()
    return nodes, edges, unm, dup


def unmapped_side(side):
    """sorted canonical SMILES of the fragments of a side with atom maps and explicit hydrogens removed.
    Stereo descriptors are ignored: the ITS carries element, aromaticity, H count, charge and bond orders only."""
    from rdkit import Chem
    mol = Chem.MolFromSmiles(side)
    if mol is None:
        return None
    for a in mol.GetAtoms():
        a.SetAtomMapNum(0)
    mol = Chem.RemoveHs(mol)
    return sorted(Chem.MolToSmiles(mol, isomericSmiles=False).split("."))
