"""C19 round 5: scripts of PUBLIC API calls on ONE DeficiencyAnalyzer object (own file of C19).

case = network case + opts = [stoich_fn given, rank_fn given] + script = list of
    ["c", <call>]   call in CALLS  (one public method of the analyzer)
    ["e", <edit>]   an edit of the input object between two calls (same edit language as the histories of c19_adv)

The model is the state machine of coq/model/C19_Api.v (run19_ops): after every call the result / error code and every stored
field are compared."""
from . import c17_nets as G
from . import c19_adv as ADV

CALLS = ["summary", "linkage", "one", "nondeg", "nondegt", "crn0", "crn1", "check0", "check1", "reg"]
COQ_OP = {"summary": "OSummary", "linkage": "OLinkage", "one": "OOne", "nondeg": "ONondeg", "nondegt": "ONondeg", "crn0": "(OCrn false)",
          "crn1": "(OCrn true)", "check0": "OCheck0", "check1": "OCheck1", "reg": "OReg"}


def _case(name, lines, script, opts=(True, True), view="hyper", kind="api-seq", iso=()):
    rx = G.net_from_strings(lines, kind)["rxns"] if lines and isinstance(lines[0], str) else lines
    sc = [["c", s] if isinstance(s, str) else ["e", s] for s in script]
    return dict(kind=kind, name="api-seq/" + name, rxns=rx, iso=list(iso), view=view, opts=[bool(opts[0]), bool(opts[1])], script=sc)


def fixed():
    P = G._parse
    out = []
    abc = ["A + B <> C", "C >> 2 A"]
    lad = ["A >> 2 A", "2 A >> 3 A"]
    # every method on a virgin object (error codes), then the stages one by one
    out.append(_case("virgin-errors", abc, ["check0", "check1", "reg", "linkage", "nondeg", "summary", "check1", "check0", "reg",
                                            "linkage", "check1", "one", "nondeg"]))
    for view in ("hyper", "bip_int", "bip_str"):
        out.append(_case("lazy-one/" + view, lad, ["one", "check1", "nondeg", "summary", "check1", "reg"], view=view))
        out.append(_case("crn1-twice/" + view, abc, ["crn1", "crn1", "crn0", "nondeg"], view=view))
    # edits between the stages: the derived stages describe the network of the last compute_summary
    out.append(_case("edit-then-linkage", lad, ["crn0", ["del", "r_2"], "linkage", "check1", "one", "summary", "check1", "one", "check1"]))
    out.append(_case("edit-then-one", lad, ["summary", ["del", "r_2"], "one", "check0", "crn0", "check0"]))
    out.append(_case("summary-drops-derived", lad, ["crn1", ["del", "r_2"], "summary", "check1", "linkage", "check1", "nondeg"]))
    out.append(_case("coef-then-stages", ["A >> B", "2 A >> 2 B"], ["crn1", ["coef", "r_2", "r", "B", 1], "nondeg", "linkage", "one",
                                                                    "summary", "nondeg", "one"]))
    # nondegeneracy test after the network changed: S from the current network, complexes from the stored summary
    out.append(_case("nondeg-species-added", ["A >> B"], ["crn1", ["add", ["n_1", "r", P("B"), P("2 C + D")]], "nondeg", "summary", "nondeg"]))
    out.append(_case("nondeg-species-added-2", ["A + B >> C"], ["summary", ["add", ["n_1", "r", P("D"), P("E")]], "nondeg", "crn1"]))
    out.append(_case("nondeg-species-removed", ["A >> B", "B >> C + D"], ["crn1", ["del", "r_2"], "nondeg", "crn1"]))
    out.append(_case("nondeg-orphan-kept", abc, ["crn1", ["rmsp0", "B"], "nondeg", "summary", "nondeg"]))
    # the network loses every reaction: ValueError leaves the object untouched
    out.append(_case("emptied", ["A >> B"], ["crn0", ["del", "r_1"], "summary", "check0", "one", "nondeg", "crn1", "linkage", "reg"]))
    out.append(_case("emptied-virgin", ["A >> B"], [["del", "r_1"], "one", "crn0", "summary", "check0", "nondeg"]))
    out.append(_case("refilled", ["A >> B"], ["summary", ["del", "r_1"], "crn0", ["add", ["n_1", "r", P("A + B"), P("2 C")]], "one", "crn1"]))
    # constructor options
    for view in ("hyper", "bip_int"):
        out.append(_case("no-stoich/" + view, abc, ["crn1", "check1", "nondeg", "crn0", "summary", "nondeg", "one"], opts=(False, True), view=view))
        out.append(_case("no-rank/" + view, lad, ["crn1", "check0", "check1", "summary", "one"], opts=(True, False), view=view))
    out.append(_case("no-stoich-no-rank", abc, ["one", "crn1", "crn0", "check0"], opts=(False, False)))
    # >= 2 classes, nullity >= 2, a null step, isolated species
    out.append(_case("nondeg-tolerance", abc, ["nondegt", "crn0", "nondegt", "nondeg", "nondegt", ["del", "r_3"], "nondegt", "crn1", "nondegt"]))
    # between the calls: the caller edits what as_dict() returned; other routes / non-default export options on the same input object
    for view in ("hyper", "bip_int"):
        out.append(_case("tamper-and-probes/" + view, abc, ["crn1", ["probe", 4], "check1", ["probe", 0], "linkage", ["probe", 1], "one", ["probe", 2],
                                                        "nondeg", ["probe", 3], "crn0", ["probe", 4], "reg", "summary", ["probe", 4], "check0"], view=view))
    out.append(_case("two-classes", ["A >> B", "C >> D", "D >> 2 C"], ["crn1", ["del", "r_3"], "linkage", "nondeg", "crn1"]))
    out.append(_case("null-step", [["r_1", "r", [["A", 1]], [["A", 1]]], ["r_2", "r", [["B", 1]], [["C", 1]]]], ["crn1", "reg", "check0"]))
    out.append(_case("isolated", ["A >> B"], ["crn1", ["add", ["n_1", "r", P("A"), P("2 B")]], "nondeg", "crn1"], iso=["Z"]))
    return out


def random_scripts(rng, count):
    out = []
    pool = [(l, r) for l, r in G.alphabet_reactions()]
    for k in range(count):
        nr = rng.randint(1, 4)
        sides = [(G._side(l), G._side(r)) for l, r in rng.sample(pool, nr)]
        rxns = [["r_%d" % (i + 1), rng.choice(G.RULES), l, r] for i, (l, r) in enumerate(sides)]
        view = rng.choice(["hyper", "hyper", "hyper", "bip_int", "bip_str"])
        z = rng.random()
        opts = (True, True) if z < 0.8 else (False, True) if z < 0.9 else (True, False)
        script, edits = [], []
        nadd = 0
        for j in range(rng.randint(3, 8)):
            cur, _iso = ADV.apply_edits2(rxns, edits)[-1]
            if rng.random() < 0.3:
                e = None
                y = rng.random()
                if rng.random() < 0.15:
                    e = ["probe", rng.randrange(5)]
                elif view != "hyper" or y < 0.3:
                    cands = [(r[0], sd, x[0]) for r in cur for sd, side in (("l", r[2]), ("r", r[3])) for x in side]
                    if cands:
                        eid, sd, sp_ = rng.choice(cands)
                        e = ["coef", eid, sd, sp_, rng.choice([1, 2, 3])]
                elif y < 0.55 and cur:
                    e = ["del", rng.choice(cur)[0]]
                elif y < 0.8:
                    l, r = rng.choice(pool)
                    if rng.random() < 0.3:                        # a species the network has not seen yet
                        l = tuple((("D" if s == "A" else s), c) for s, c in l)
                    nadd += 1
                    e = ["add", ["n_%d" % nadd, rng.choice(G.RULES), G._side(l), G._side(r)]]
                elif y < 0.9 and cur:
                    l, r = rng.choice(pool)
                    e = ["repl", [rng.choice(cur)[0], rng.choice(G.RULES), G._side(l), G._side(r)]]
                elif ADV._occ(cur):
                    e = [rng.choice(["rmsp", "rmsp0"]), rng.choice(sorted(ADV._occ(cur)))]
                if e is not None:
                    edits.append(e)
                    script.append(["e", e])
                    continue
            script.append(["c", rng.choice(CALLS + ["crn0", "crn1", "summary", "one", "nondeg"])])
        if any(s[0] == "c" for s in script):
            out.append(dict(kind="api-seq", rxns=rxns, iso=[], view=view, opts=list(opts), script=script))
    return out


def networks_at_calls(case):
    """For every call of the script the (reaction list, isolated species) of the network at that moment."""
    edits = [s[1] for s in case["script"] if s[0] == "e"]
    nets = ADV.apply_edits2(case["rxns"], edits, case.get("iso", []))
    out, k = [], 0
    for s in case["script"]:
        if s[0] == "e":
            k += 1
        else:
            out.append((k, nets[k]))
    return out


# ------------------------------------------------------------------ raw attributed bipartite graphs (model/C19_Nodes.v)

MUTATIONS = ["none", "no-kind", "no-bflag", "species-wins", "kind-other", "no-attrs-node", "no-label", "no-stoich", "float-stoich",
             "no-role", "odd-role", "reversed", "rxn-rxn-arc", "sp-sp-arc", "same-label", "int-label", "self-loop"]


def raw_graph(case):
    """Build the DiGraph of a raw case: the export of the network (view bip_int / bip_str) with the listed attribute mutations
    applied deterministically (positions chosen by case['pick'])."""
    import networkx as nx
    from ..props.C17 import build
    from synkit.CRN.Hypergraph.conversion import hypergraph_to_bipartite
    G = hypergraph_to_bipartite(build(case), integer_ids=(case.get("view", "bip_int") == "bip_int"), include_edge_id_attr=True)
    G = nx.DiGraph(G)
    pick = case.get("pick", 0)
    sp = [n for n, d in G.nodes(data=True) if d.get("kind") == "species"]
    rn = [n for n, d in G.nodes(data=True) if d.get("kind") == "reaction"]
    for mu in case["mut"]:
        arcs = sorted(G.edges(), key=repr)
        if mu == "none":
            pass
        elif mu == "no-kind":
            for n in G.nodes:
                G.nodes[n].pop("kind", None)
        elif mu == "no-bflag":
            for n in G.nodes:
                G.nodes[n].pop("bipartite", None)
        elif mu == "species-wins":            # kind says reaction, the flag says species: classified as a species
            n = rn[pick % len(rn)]
            G.nodes[n]["bipartite"] = 0
        elif mu == "kind-other":              # an unknown kind falls back to the flag
            G.nodes[sp[pick % len(sp)]]["kind"] = "metabolite"
            G.nodes[rn[pick % len(rn)]]["kind"] = "process"
        elif mu == "no-attrs-node":           # neither kind nor flag: the node is ignored (and so are its arcs)
            n = sp[pick % len(sp)]
            G.nodes[n].pop("kind", None)
            G.nodes[n].pop("bipartite", None)
        elif mu == "no-label":                # the label falls back to str(node id)
            for n in sp[pick % 2::2]:
                G.nodes[n].pop("label", None)
        elif mu == "no-stoich":
            for k, (u, v) in enumerate(arcs):
                if (k + pick) % 2 == 0:
                    G[u][v].pop("stoich", None)
        elif mu == "float-stoich":
            for k, (u, v) in enumerate(arcs):
                G[u][v]["stoich"] = float(G[u][v].get("stoich", 1)) + (0.75 if (k + pick) % 3 == 0 else 0.0)
        elif mu == "no-role":
            u, v = arcs[pick % len(arcs)]
            G[u][v].pop("role", None)
        elif mu == "odd-role":
            u, v = arcs[pick % len(arcs)]
            G[u][v]["role"] = "catalyst"
        elif mu == "reversed":                # the direction of an arc plays no part
            u, v = arcs[pick % len(arcs)]
            if not G.has_edge(v, u):
                d = dict(G[u][v])
                G.remove_edge(u, v)
                G.add_edge(v, u, **d)
        elif mu == "rxn-rxn-arc":
            if len(rn) >= 2:
                G.add_edge(rn[0], rn[-1], role="reactant", stoich=3)
        elif mu == "sp-sp-arc":
            if len(sp) >= 2:
                G.add_edge(sp[0], sp[-1], role="product", stoich=3)
        elif mu == "same-label":
            if len(sp) >= 2:
                G.nodes[sp[-1]]["label"] = G.nodes[sp[0]].get("label", "A")
        elif mu == "int-label":
            for k, n in enumerate(sp):
                G.nodes[n]["label"] = 10 - 3 * k
        elif mu == "set-attrs":               # kind / bipartite of one node set to a given combination (None = attribute absent)
            which, kd, fl = case["attrs"]
            n = (sp if which == "species" else rn)[0]
            for key, val in (("kind", kd), ("bipartite", fl)):
                if val is None:
                    G.nodes[n].pop(key, None)
                else:
                    G.nodes[n][key] = val
        elif mu == "set-arc":                 # role / stoich / direction of one arc set to a given combination (None = attribute absent)
            role, st, flip = case["attrs"]
            u, v = arcs[pick % len(arcs)]
            d = {k2: v2 for k2, v2 in (("role", role), ("stoich", st)) if v2 is not None}
            G.remove_edge(u, v)
            if flip and not G.has_edge(v, u):
                u, v = v, u
            G.add_edge(u, v, **d)
        elif mu == "self-loop":
            G.add_edge(rn[pick % len(rn)], rn[pick % len(rn)], role="product", stoich=2)
        else:
            raise KeyError(mu)
    return G


def raw_input(case):
    """The object handed to the analyzer: the raw DiGraph, or (case['und'] = 'graph' / 'multi') its undirected version — for a
    multigraph with the parallel incidences case['par'] = [[edge index, role, stoich | None], ...] added."""
    import networkx as nx
    G = raw_graph(case)
    und = case.get("und")
    if not und:
        return G
    if und == "multidi":                                       # a DIRECTED multigraph: returned as it is by _as_bipartite; parallel arcs accumulate
        U = nx.MultiDiGraph()
        U.add_nodes_from(G.nodes(data=True))
        for u, v, d in G.edges(data=True):
            U.add_edge(u, v, **d)
        edges = sorted(G.edges(), key=repr)
        for k, role, st in case.get("par", []):
            u, v = edges[k % len(edges)]
            d = dict(role=role)
            if st is not None:
                d["stoich"] = st
            if k % 2:
                u, v = v, u
            U.add_edge(u, v, **d)
        return U
    U = nx.MultiGraph() if und == "multi" else nx.Graph()      # built edge by edge: nx.MultiGraph(DiGraph) drops one of u->v, v->u
    U.add_nodes_from(G.nodes(data=True))
    for u, v, d in G.edges(data=True):
        U.add_edge(u, v, **d)                                  # simple graph: a second incidence of the pair overwrites the first
    edges = sorted(G.edges(), key=repr)
    for k, role, st in case.get("par", []):
        u, v = edges[k % len(edges)]
        d = dict(role=role)
        if st is not None:
            d["stoich"] = st
        if k % 2:
            u, v = v, u
        U.add_edge(u, v, **d)
    return U


def raw_cases(rng, count):
    out = []
    base = [["A + B <> C", "C >> 2 A"], ["A >> B", "B >> C", "C >> A"], ["A >> 2 A", "2 A >> 3 A"], ["A + B >> A + C", "C >> B"],
            ["X10 >> X2", "X2 >> X1 + X10", "0 >> X1"]]
    k = 0
    for lines in base:
        rx = G.net_from_strings(lines, "raw-graph")["rxns"]
        for mu in MUTATIONS:
            for view in (("bip_int", "bip_str") if mu in ("none", "no-label", "int-label") else ("bip_int",)):
                out.append(dict(kind="raw-graph", name="raw/%s/%s/%d" % (mu, view, k), rxns=rx, iso=[], view=view, mut=[mu], pick=k))
                k += 1
    # undirected inputs: _as_bipartite orients every incidence by its role (simple graph: one edge per pair; multigraph: parallel
    # incidences, the same ordered pair twice adds the coefficients)
    for lines in base:
        rx = G.net_from_strings(lines, "raw-graph")["rxns"]
        for und in ("graph", "multi"):
            for mu in ("none", "no-kind", "species-wins", "kind-other", "no-role", "no-stoich", "reversed", "rxn-rxn-arc"):
                out.append(dict(kind="raw-graph", name="raw-und/%s/%s/%d" % (und, mu, k), rxns=rx, iso=[], view="bip_int" if k % 3 else "bip_str",
                                mut=[mu], pick=k, und=und))
                k += 1
        for par in ([[0, "reactant", 2]], [[1, "product", None]], [[2, "reactant", None], [2, "reactant", 3]], [[3, "product", 2], [0, "product", 1]],
                    [[1, None, 2]], [[4, "reactant", 1], [5, "product", 1], [4, "reactant", None]]):
            out.append(dict(kind="raw-graph", name="raw-und/multi-parallel/%d" % k, rxns=rx, iso=[], view="bip_int", mut=["none"], pick=k,
                            und="multi", par=par))
            k += 1
            out.append(dict(kind="raw-graph", name="raw-multidi/parallel/%d" % k, rxns=rx, iso=[], view="bip_str" if k % 2 else "bip_int",
                            mut=["none"], pick=k, und="multidi", par=par))
            k += 1
    # >= 10 species / reactions: two-digit node identifiers ("10" < "2" once the label falls back to str(node))
    big = G.net_from_strings(["S%d >> S%d" % (i, i + 1) for i in range(1, 12)] + ["S12 >> 2 S1"], "raw-graph")["rxns"]
    for mu in ("none", "no-label", "int-label", "no-kind", "reversed", "no-stoich"):
        for view, und in (("bip_int", None), ("bip_str", None), ("bip_int", "multi")):
            c = dict(kind="raw-graph", name="raw-big/%s/%s/%s/%d" % (mu, view, und or "digraph", k), rxns=big, iso=[], view=view, mut=[mu], pick=k)
            if und:
                c["und"] = und
            out.append(c)
            k += 1
    pool = [(l, r) for l, r in G.alphabet_reactions()]
    for j in range(count):
        nr = rng.randint(1, 4)
        sides = [(G._side(l), G._side(r)) for l, r in rng.sample(pool, nr)]
        rxns = [["r_%d" % (i + 1), rng.choice(G.RULES), l, r] for i, (l, r) in enumerate(sides)]
        mu = rng.sample(MUTATIONS[1:], rng.randint(1, 3))
        c = dict(kind="raw-graph", rxns=rxns, iso=[], view=rng.choice(["bip_int", "bip_str"]), mut=mu, pick=rng.randrange(12))
        z = rng.random()
        if z < 0.2:
            c["und"] = "graph"
        elif z < 0.45:
            c["und"] = rng.choice(["multi", "multi", "multidi"])
            c["par"] = [[rng.randrange(8), rng.choice(["reactant", "product", "product", None]), rng.choice([None, 1, 2, 3])]
                        for _ in range(rng.randint(0, 3))]
        out.append(c)
    return out


# ------------------------------------------------------------------ three-digit counts

def hundred_classes(n=100):
    """n disjoint classes X_i -> 2 X_i: n species, n reactions, 2n complexes, n linkage classes, rank n, deficiency 0 (three-digit
    numbers of complexes / classes / class deficiencies; complex index 10 < 100 < 2 only as numbers)."""
    sp = ADV.names(n, "num")
    rxns = [["r_%d" % (k + 1), "r", [[sp[k], 1]], [[sp[k], 2]]] for k in range(n)]
    return dict(kind="large", name="large/%d-classes" % n, rxns=rxns, iso=[], view="hyper", delta=0, wr=False)


# ------------------------------------------------------------------ exhaustive small scopes of the two new layers

def exhaustive_scripts():
    """ALL call sequences of length 3 over six state-changing / state-reading calls with the network edited after the first call
    (216), and ALL pairs over the ten call kinds without an edit (100), on A -> 2A -> 3A (deficiency 1, class deficiency 1; after the
    knock-out 0 / 0)."""
    import itertools
    lad = ["A >> 2 A", "2 A >> 3 A"]
    out = []
    six = ["summary", "linkage", "one", "nondeg", "crn1", "check1"]
    for k, seq in enumerate(itertools.product(six, repeat=3)):
        c = _case("exh3/%s" % "-".join(seq), lad, [seq[0], ["del", "r_2"], seq[1], seq[2]], kind="api-seq-exh")
        out.append(c)
    for a, b in itertools.product(CALLS, repeat=2):
        out.append(_case("exh2/%s-%s" % (a, b), lad, [a, b], kind="api-seq-exh"))
    return out


def exhaustive_attributes():
    """ALL 16 combinations of kind in {species, reaction, other, absent} x bipartite in {0, 1, 2, absent} on one species node and on
    one reaction node of A + B -> C, as DiGraph and as undirected Graph (the orientation rule of _as_bipartite reads the same two
    attributes by ANOTHER rule than _split_species_reactions)."""
    out = []
    rx = G.net_from_strings(["A + B >> C"], "raw-graph")["rxns"]
    kinds = ["species", "reaction", "other", None]
    flags = [0, 1, 2, None]
    for which in ("species", "reaction"):
        for kd in kinds:
            for fl in flags:
                for und in (None, "graph"):
                    out.append(dict(kind="raw-graph-exh", name="raw-exh/%s/%s/%s/%s" % (which, kd, fl, und or "digraph"), rxns=rx, iso=[],
                                    view="bip_int", mut=["set-attrs"], attrs=[which, kd, fl], pick=0, **({"und": und} if und else {})))
    return out


def exhaustive_arc_attributes():
    """ALL 32 combinations of role in {reactant, product, other, absent} x stoich in {absent, 1, 2, 2.5} x direction in {kept,
    reversed} on each of the three arcs of A + B -> C, as DiGraph and as undirected Graph (192 cases)."""
    out = []
    rx = G.net_from_strings(["A + B >> C"], "raw-graph")["rxns"]
    for pick in range(3):
        for role in ("reactant", "product", "other", None):
            for st in (None, 1, 2, 2.5):
                for flip in (False, True):
                    for und in (None, "graph"):
                        out.append(dict(kind="raw-graph-exh", name="raw-exh-arc/%d/%s/%s/%s/%s" % (pick, role, st, flip, und or "digraph"), rxns=rx,
                                        iso=[], view="bip_int", mut=["set-arc"], attrs=[role, st, flip], pick=pick, **({"und": und} if und else {})))
    return out
