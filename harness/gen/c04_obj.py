"""C04 — OBJECT cases: one SynReactor on the graph substrate (node ids = atom maps), a script of reads of its lazily
computed attributes; every answer (not a verdict: the VALUE) is compared with the Gallina state machine of
coq/model/C04_Reactor.v (caches _mappings / _flag_pattern_has_explicit_H / _its / _smarts, pruning when more than one raw
match, _explicit_h over the list, _to_smarts filter, reverse_reaction when backwards, split('>>')[-1] of smiles_list).

Oracle inputs recorded from the implementation and handed to the model: the RAW matches of the search engine (in its
order) and RDKit's graph_to_smi of the two sides of every ITS of its_list (by position).
Everything touching synkit is imported inside functions.
"""
import copy

from . import c03_common as K

ATTR = {"mappings": "AMappings", "its_list": "AIts", "smarts_list": "ASmarts", "smiles_list": "ASmiles",
        "mapping_count": "ACount", "len_smarts": "ALenSmarts"}
SCRIPTS = {
    "o-smarts": ["smarts_list", "smarts_list", "smiles_list", "len_smarts", "its_list", "mappings", "mapping_count", "smarts_list"],
    "o-its": ["its_list", "its_list", "mappings", "smarts_list", "smiles_list", "smarts_list"],
    "o-count": ["mapping_count", "mappings", "smiles_list", "its_list", "smarts_list", "len_smarts"],
}
MAX_RAW = 40


def _read(R, attr, host):
    """value of one read as an observable; [] = the read raised StopIteration, [v] = it returned v"""
    try:
        if attr == "mappings":
            return [[K.map_obs(m) for m in R.mappings]]
        if attr == "its_list":
            return [[K.explicit_h_obs(host, g) for g in R.its_list]]
        if attr == "smarts_list":
            return [[list(s.encode()) for s in R.smarts_list]]
        if attr == "smiles_list":
            return [[list(s.encode()) for s in R.smiles_list]]
        if attr == "mapping_count":
            return [R.mapping_count]
        if attr == "len_smarts":
            return [len(R.smarts_list)]
    except StopIteration:
        return []
    raise KeyError(attr)


def _sides(g):
    """what _to_smarts hands to RDKit and gets back: graph_to_smi of the two sides (None = refused)"""
    from synkit.Graph.ITS.its_decompose import its_decompose
    from synkit.Graph import remove_wildcard_nodes
    from synkit.IO.chem_converter import graph_to_smi
    l, r = its_decompose(g)
    out = []
    for side in (remove_wildcard_nodes(l), remove_wildcard_nodes(r)):
        s = graph_to_smi(side)
        out.append(None if s is None else list(s.encode()))
    return out


def make(host, tpl, inv, mode_kw, rule=None):
    import synkit.Synthesis.Reactor.syn_reactor as SR
    return SR.SynReactor(copy.deepcopy(host), rule if rule is not None else copy.deepcopy(tpl), invert=inv, strategy="all", **mode_kw)


def record(host, tpl, inv, mode_kw, rule=None):
    """oracle inputs from a FRESH reactor: raw matches (engine order), has_XH flag, serialisations by position"""
    import synkit.Synthesis.Reactor.syn_reactor as SR
    orig = SR.deduplicate_matches_by_automorphisms
    seen = {}

    def dedup(ms, *a, **k):
        ms = list(ms)
        seen["raw"] = [dict(m) for m in ms]
        return orig(ms, *a, **k)
    SR.deduplicate_matches_by_automorphisms = dedup
    try:
        R = make(host, tpl, inv, mode_kw, rule)
        maps = [dict(m) for m in R.mappings]
    finally:
        SR.deduplicate_matches_by_automorphisms = orig
    raw = seen.get("raw", maps)
    try:
        its = list(R.its_list)
    except StopIteration:
        its = list(R.its_list)          # the half-processed list that stayed in the cache (model: stale_after_crash)
    return dict(raw=[K.map_pairs(m) for m in raw], flag=bool(R._flag_pattern_has_explicit_H), sers=[_sides(g) for g in its])


def run(host, tpl, inv, mode_kw, script, rule=None):
    R = make(host, tpl, inv, mode_kw, rule)
    return [_read(R, a, host) for a in SCRIPTS[script]]


def c_bytes(b):
    return "None" if b is None else "(Some %s)" % K.cl([K.cN(x) for x in b])


def c_sers(sers):
    return K.cl(["(%s, %s)" % (c_bytes(r), c_bytes(p)) for r, p in sers])


def c_maps(ms):
    return K.cl([K.cl(["(%s, %s)" % (K.cN(p), K.cN(h)) for p, h in m]) for m in ms])


def c_script(script):
    return K.cl([ATTR[a] for a in SCRIPTS[script]])


# ------------------------------------------------------------------ the hand-made crash reactor
def crash_inputs():
    """A SynRule OBJECT built by hand with implicit_h=False whose only changing atom loses a hydrogen (h_pairs [1]) with no
    partner to take it, applied in the default mode: _explicit_h raises StopIteration on the first glued ITS.  Outside the
    precondition of C04 (not an own template); used to run the real code at the hypothesis of C04_reads_coherent."""
    import networkx as nx
    from synkit.Rule import SynRule
    g = nx.Graph()
    g.add_node(1, element="O", charge=0, hcount=1, aromatic=False, atom_map=1,
               typesGH=(("O", False, 1, 0, []), ("O", False, 0, -1, [])), h_pairs=[1])
    g.add_node(2, element="C", charge=0, hcount=0, aromatic=False, atom_map=2,
               typesGH=(("C", False, 0, 0, []), ("C", False, 0, 0, [])))
    g.add_edge(1, 2, order=(1.0, 1.0), standard_order=0.0)
    host = nx.Graph()
    for n, (el, hc) in {1: ("C", 3), 2: ("O", 1), 3: ("C", 3), 4: ("O", 1)}.items():
        host.add_node(n, element=el, charge=0, hcount=hc, aromatic=False, atom_map=n, neighbors=[])
    host.add_edge(1, 2, order=1.0)
    host.add_edge(3, 4, order=1.0)
    return host, g, SynRule(copy.deepcopy(g), implicit_h=False)
