"""C14 — instrumentation of synkit.Synthesis.Reactor.batch_reactor from the harness process.

Nothing in /repo is edited: the wrappers are installed on the imported module / classes
for the duration of one case and removed afterwards.

Recorded event trace (temporal order), object ids `oid` = serial number of the alloc event:
    ["A", addr, content]      an object (substrate graph / rule graph) came into existence at `addr`
    ["P", s_oid, r_oid, inv]  _RuleApplier.__call__(substrate, rule, inv)
    ["R", oid]                the client (worker frame / fit frame / harness variable) dropped its reference
    ["C", oid]                the object was really deallocated (weakref.finalize fired)
`addr` is the value `id()` yields for the object inside batch_reactor: the real CPython address
(mode "real") or the address chosen by an adversarial allocator policy (modes lifo/fifo/min/rand:
`id` is shadowed in the batch_reactor module namespace; an address is only ever handed out again
after the object that had it has REALLY been deallocated, so every policy is a legal allocator).
Addresses are normalised to 0,1,2,.. in order of first appearance before they leave this module.
Per P event the observed (hit, result) is recorded; per executed (content_s, content_r, inv) the
result of `_execute` (the table that instantiates the model's Section variable `execute`).
"""
import gc
import weakref


class Tracer:
    def __init__(self, mode="real", rng=None, stub=None):
        self.mode = mode
        self.rng = rng
        self.stub = stub                # None = real reactor; else callable(content_s_str, content_r_str, inv) -> list[str]
        self.events = []
        self.papp = []                  # per P: [hit, [result codes]]
        self.table = {}                 # (cs, cr, inv) -> [codes]
        self.table_conflict = []
        self.contents = []              # content id -> string
        self._cidx = {}
        self.rescodes = {}              # result string -> code
        self.n_alloc = 0
        self.live = {}                  # real id -> oid   (only live, tracked objects)
        self.obj_content = {}           # oid -> content id
        self.obj_addr = {}              # oid -> addr as seen by batch_reactor.id
        self._free = []                 # freed fake addresses, in order of release
        self._next_fake = 1000
        self._exec_depth = 0
        self._executed = False
        self._saved = None
        self.gc_each = False
        self.wref = {}                  # oid -> weakref (never keeps the object alive)

    # ---------------------------------------------------------------- interning
    def content(self, s):
        if s not in self._cidx:
            self._cidx[s] = len(self.contents)
            self.contents.append(s)
        return self._cidx[s]

    def rcode(self, s):
        if s not in self.rescodes:
            self.rescodes[s] = len(self.rescodes)
        return self.rescodes[s]

    # ---------------------------------------------------------------- allocator
    def _pick_addr(self, obj):
        if self.mode == "real":
            return id(obj)
        fr = self._free
        if self.mode == "fresh" or not fr:
            a = self._next_fake
            self._next_fake += 1
            return a
        if self.mode == "lifo":
            return fr.pop()
        if self.mode == "fifo":
            return fr.pop(0)
        if self.mode == "min":
            a = min(fr)
            fr.remove(a)
            return a
        if self.mode == "rand":
            if self.rng.random() < 0.25:
                a = self._next_fake
                self._next_fake += 1
                return a
            return fr.pop(self.rng.randrange(len(fr)))
        raise AssertionError(self.mode)

    def register(self, obj, content_str):
        """A tracked object came into existence (client holds it)."""
        if id(obj) in self.live and self.wref[self.live[id(obj)]]() is obj:
            return self.live[id(obj)]
        oid = self.n_alloc
        self.n_alloc += 1
        addr = self._pick_addr(obj)
        c = self.content(content_str)
        self.live[id(obj)] = oid
        self.obj_content[oid] = c
        self.obj_addr[oid] = addr
        self.wref[oid] = weakref.ref(obj)
        self.events.append(["A", addr, c])
        weakref.finalize(obj, self._collected, oid, id(obj), addr)
        return oid

    def _collected(self, oid, rid, addr):
        if self.live.get(rid) == oid:
            del self.live[rid]
        self.events.append(["C", oid])
        if self.mode != "real":
            self._free.append(addr)

    def release(self, oid):
        self.events.append(["R", oid])

    def oid_of(self, obj):
        oid = self.live.get(id(obj))
        if oid is None or self.wref[oid]() is not obj:
            raise KeyError("untracked object reached the rule applier")
        return oid

    def fake_id(self, obj):
        oid = self.live.get(id(obj))
        if oid is not None and self.wref[oid]() is obj:
            return self.obj_addr[oid]
        return id(obj)

    # ---------------------------------------------------------------- install / remove
    def install(self):
        from synkit.Synthesis.Reactor import batch_reactor as br
        T = self
        RA, BR = br._RuleApplier, br.BatchReactor
        self._saved = dict(call=RA.__call__, execute=RA._execute, to_graph=BR._to_graph,
                           ensure=BR.__dict__["_ensure_graph_rules"], bulk=BR._apply_bulk, fit=BR.fit,
                           raw=br._apply_rule_raw, had_id="id" in br.__dict__)
        s = self._saved

        def call(self_, substrate, rule, inv):
            so, ro = T.oid_of(substrate), T.oid_of(rule)
            T.events.append(["P", so, ro, bool(inv)])
            T._executed = False
            res = s["call"](self_, substrate, rule, inv)
            T.papp.append([not T._executed, [T.rcode(x) for x in res]])
            return res

        def execute(self_, substrate, rule, inv):
            T._executed = True
            res = s["execute"](self_, substrate, rule, inv)
            k = (T.obj_content[T.oid_of(substrate)], T.obj_content[T.oid_of(rule)], bool(inv))
            codes = [T.rcode(x) for x in res]
            if k in T.table and T.table[k] != codes:
                T.table_conflict.append(k)
            T.table.setdefault(k, codes)
            return res

        def to_graph(self_, entry):
            if T.mode != "real" or T.gc_each:
                gc.collect()            # adversarial allocators: make every dead object's address available
            g = s["to_graph"](self_, entry)
            e = entry[self_._host_key] if isinstance(entry, dict) else entry
            T.register(g, "S:" + e)
            return g

        def ensure(rules):
            rules = list(rules)
            out = s["ensure"].__func__(rules)
            T._fit_rule_oids = []
            T._fit_rule_objs = []       # keeps string-born rule graphs alive until their "R" event is written
            for r, g in zip(rules, out):
                if isinstance(r, str):
                    T._fit_rule_oids.append(T.register(g, "R:" + r))
                    T._fit_rule_objs.append(g)
            return out

        def bulk(self_, g, rules, invert):
            try:
                return s["bulk"](self_, g, rules, invert)
            finally:
                T.release(T.oid_of(g))

        def fit(self_, rules, *, invert=False):
            try:
                return s["fit"](self_, rules, invert=invert)
            finally:
                for o in getattr(T, "_fit_rule_oids", []):
                    T.release(o)
                T._fit_rule_oids = []
                T._fit_rule_objs = []

        RA.__call__, RA._execute = call, execute
        BR._to_graph, BR._apply_bulk, BR.fit = to_graph, bulk, fit
        BR._ensure_graph_rules = staticmethod(ensure)
        if self.stub is not None:
            def raw(substrate, rule, invert, engine, **kw):
                return list(T.stub(T.contents[T.obj_content[T.oid_of(substrate)]],
                                   T.contents[T.obj_content[T.oid_of(rule)]], bool(invert)))
            br._apply_rule_raw = raw
        if self.mode != "real":
            br.id = self.fake_id
        return self

    def remove(self):
        from synkit.Synthesis.Reactor import batch_reactor as br
        s = self._saved
        RA, BR = br._RuleApplier, br.BatchReactor
        RA.__call__, RA._execute = s["call"], s["execute"]
        BR._to_graph, BR._apply_bulk, BR.fit = s["to_graph"], s["bulk"], s["fit"]
        BR._ensure_graph_rules = s["ensure"]
        br._apply_rule_raw = s["raw"]
        if not s["had_id"] and "id" in br.__dict__:
            del br.id
        self._saved = None

    # ---------------------------------------------------------------- export
    def export(self, applier=None):
        """Normalise addresses; returns dict(trace, papp, table, keys)."""
        amap = {}

        def na(a):
            if a not in amap:
                amap[a] = len(amap)
            return amap[a]
        trace = []
        for e in self.events:
            if e[0] == "A":
                trace.append(["A", na(e[1]), e[2]])
            else:
                trace.append(list(e))
        keys = None
        if applier is not None and applier._cache is not None:
            keys = [[amap.get(k[0], -1), amap.get(k[1], -1), bool(k[2])] for k in applier._cache.keys()]
        table = [[list(k), v] for k, v in sorted(self.table.items())]
        return dict(trace=trace, papp=self.papp, table=table, keys=keys)
