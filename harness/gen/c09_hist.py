"""C09 histories: short scripts of API calls run in ONE process on SHARED objects (round 3).

A history is a list of steps (JSON dicts).  `run_history(steps)` runs them in order in a forked child of the worker
(so nothing a history does - non-default options, poisoned caches, mutated results - leaks into other cases) and
returns one result per step: {"model": <what the Gallina model also computes, or None>, "full": <everything observed>}.
`run_fresh(steps, i)` evaluates step i alone (fresh objects, fresh forked child of the worker): stale state of any kind
(instance attributes, module-level caches, objects mutated by the caller) shows up as history result != fresh result.

steps
  validator  {"op":"check","api":pos|kw|inst|default|pair|batch|df|taut|equiv,"m":mapped,"t":truth,"method":"RC"|"ITS"|..,"ia":bool}
  canonical  {"op":"new","obj":k,"backend":b,"wl_iterations":n?,"node_attrs":[..]?,"pos":bool?}
             {"op":"canon","obj":k,"rsmi":r,"call":"canonicalise"|"call"}   {"op":"props","obj":k}   {"op":"mutate","obj":k}
             {"op":"expand","obj":k,"rsmi":r}   {"op":"helpers","obj":k,"rsmi":r}
  standard.  {"op":"snew","obj":k}  {"op":"std","obj":k,"api":fit|fit_pos|std_rsmi|rm_aam|categorize,"rsmi":r,"remove_aam":b,"ignore_stereo":b}
  balance    {"op":"bnew","obj":k,"n_jobs":n}  {"op":"bal","obj":k,"api":rsmi|dict|dicts|dicts_str|formula|parse,"rsmis":[..],"column":c,"mutate":b}
"""
import json
import os

from . import c01_enc as E


def worker_quiet():
    import logging
    logging.disable(logging.CRITICAL)
    try:
        from rdkit import RDLogger
        RDLogger.DisableLog("rdApp.*")
    except Exception:
        pass


# ------------------------------------------------------------------ isolation

def isolated(fn, *args, budget=120):
    """fn(*args) in a forked child; returns its JSON-able value, or ["EXC", name, text] / ["CHILD-DIED"]."""
    r, w = os.pipe()
    pid = os.fork()
    if pid == 0:
        code = 0
        try:
            os.close(r)
            try:
                import signal
                signal.setitimer(signal.ITIMER_VIRTUAL, budget)      # default action of SIGVTALRM: terminate the child
            except Exception:
                pass
            try:
                out = fn(*args)
            except BaseException as e:                                # noqa: the child must always answer
                out = ["EXC", type(e).__name__, str(e)[:300]]
            data = json.dumps(out, default=str).encode()
            k = 0
            while k < len(data):
                k += os.write(w, data[k:k + 65536])
        except BaseException:
            code = 1
        finally:
            os._exit(code)
    os.close(w)
    chunks = []
    while True:
        b = os.read(r, 1 << 16)
        if not b:
            break
        chunks.append(b)
    os.close(r)
    os.waitpid(pid, 0)
    try:
        return json.loads(b"".join(chunks).decode())
    except Exception:
        return ["CHILD-DIED"]


# ------------------------------------------------------------------ interpreter

def _graph_obs(c):
    """graph-level observable of a CanonRSMI object (what run_canon_* of the model returns)"""
    g, h, p = c.canonical_reactant_graph, c.canonical_product_graph, c.mapping_pairs
    if g is None or h is None or p is None:
        return None
    return [E.obs_mgraph(g), [list(x) for x in p], E.obs_mgraph(h)]


def _state_obs(c):
    """the whole instance state behind the properties (what run_cstate_* of model/C09_State.v returns): raw graphs, canonical
    reactant graph, mapping_pairs, canonical product graph - each [] when None, [value] otherwise - and "canonical_rsmi is set" """
    opt = lambda g: [] if g is None else [E.obs_mgraph(g)]
    p = c.mapping_pairs
    return [opt(c.raw_reactant_graph), opt(c.raw_product_graph), opt(c.canonical_reactant_graph),
            [] if p is None else [[list(x) for x in p]], opt(c.canonical_product_graph), c.canonical_rsmi is not None]


def _step_check(st):
    from synkit.Chem.Reaction.aam_validator import AAMValidator
    m, t, meth, ia, api = st["m"], st["t"], st.get("method", "RC"), bool(st.get("ia", False)), st.get("api", "pos")
    extra = None
    if api == "pos":
        v = AAMValidator.smiles_check(m, t, meth, ia)
    elif api == "kw":
        v = AAMValidator.smiles_check(ignore_aromaticity=ia, check_method=meth, ground_truth=t, mapped_smile=m)
    elif api == "inst":
        v = AAMValidator().smiles_check(m, t, check_method=meth, ignore_aromaticity=ia)
    elif api == "default":
        v = AAMValidator.smiles_check(m, t)
    elif api == "pair":
        v = AAMValidator.check_pair({"a": m, "b": t, "other": 1}, "a", "b", meth, ia, True)
    elif api == "taut":
        v = AAMValidator.check_pair({"a": m, "b": t}, "a", "b", check_method=meth, ignore_aromaticity=ia, ignore_tautomers=False)
    elif api in ("batch", "df"):
        data = [{"gt": t, "x": m, "y": t}]
        if api == "df":
            import pandas as pd
            data = pd.DataFrame(data)
        res = AAMValidator.validate_smiles(data, "gt", ["x", "y"], meth, ia, 1, 0, True)
        v = res[0]["results"][0]
        extra = [[r["mapper"], r["accuracy"], list(r["results"]), r["success_rate"]] for r in res]
    elif api == "equiv":
        from synkit.IO.chem_converter import rsmi_to_graph
        from synkit.Graph.ITS.its_construction import ITSConstruction
        from synkit.Graph.ITS.its_decompose import get_rc
        gs = []
        for r in (m, t):
            g, h = rsmi_to_graph(rsmi=r, sanitize=True, drop_non_aam=True)
            its = ITSConstruction().ITSGraph(g, h, ignore_aromaticity=ia)
            gs.append(get_rc(its) if meth.upper() == "RC" else its)
        pairs, count = AAMValidator.check_equivariant_graph(gs)
        v = count == 1
        extra = [[list(p) for p in pairs], count]
    else:
        raise AssertionError(api)
    # tautomer workflow: True / False / None (enumeration failed) -> [] for None, [b] otherwise (model: check_pair ... false)
    return dict(model=(v if api != "taut" else ([] if v is None else [bool(v)])), full=[v, extra])


def _canon_full(c):
    return dict(graph=_graph_obs(c), rsmi=c.canonical_rsmi, raw=c.raw_rsmi, hash=c.canonical_hash,
                raw_graphs=[None if g is None else E.obs_mgraph(g) for g in (c.raw_reactant_graph, c.raw_product_graph)])


def _step(st, objs):
    op = st["op"]
    if op == "check":
        return _step_check(st)
    if op == "new":
        from synkit.Chem.Reaction.canon_rsmi import CanonRSMI
        kw = {}
        if "wl_iterations" in st:
            kw["wl_iterations"] = st["wl_iterations"]
        if "node_attrs" in st:
            kw["node_attrs"] = list(st["node_attrs"])
        if st.get("pos"):
            objs[st["obj"]] = CanonRSMI(st["backend"], kw.get("wl_iterations", 3), 3, kw.get("node_attrs", ("element", "aromatic", "charge", "hcount")))
        else:
            objs[st["obj"]] = CanonRSMI(backend=st["backend"], **kw)
        return dict(model=None, full="new")
    if op == "canon":
        c = objs[st["obj"]]
        try:
            ret = c(st["rsmi"]) if st.get("call") == "call" else c.canonicalise(st["rsmi"])
        except ValueError as e:
            if "node_map must be non-empty" in str(e):
                return dict(model=_state_obs(c), full=["ValueError:empty-map", _state_obs(c)])
            raise
        full = _canon_full(c)
        full["returns_self"] = ret is c
        return dict(model=_state_obs(c), full=full)
    if op == "props":
        c = objs[st["obj"]]
        a, b = _canon_full(c), _canon_full(c)
        return dict(model=_state_obs(c), full=[a, b])
    if op == "mutate":
        c = objs[st["obj"]]
        for g in (c.canonical_reactant_graph, c.canonical_product_graph, c.raw_reactant_graph, c.raw_product_graph):
            if g is not None and g.number_of_nodes():
                n = next(iter(g.nodes))
                g.nodes[n]["element"] = "Xx"
                g.nodes[n]["atom_map"] = 999
                g.add_node(max(g.nodes) + 7, element="U", aromatic=False, hcount=0, charge=3, neighbors=[], atom_map=0)
                if g.number_of_edges():
                    u, v = next(iter(g.edges))
                    g[u][v]["order"] = 3.0
        if c.mapping_pairs is not None:
            c.mapping_pairs.append((0, 0))
            c.mapping_pairs.reverse()
        return dict(model=None, full="mutated")
    if op == "expand":
        c = objs[st["obj"]]
        return dict(model=None, full=c.expand_aam(st["rsmi"]))
    if op == "helpers":
        # the static helpers on graphs parsed by the harness: pairs, list-form remap, sync
        from synkit.Chem.Reaction.canon_rsmi import CanonRSMI
        from synkit.IO import rsmi_to_graph
        c = objs[st["obj"]]
        g, h = rsmi_to_graph(c.expand_aam(st["rsmi"]))
        pairs = CanonRSMI.get_aam_pairwise_indices(g, h)
        pairs2 = c.get_aam_pairwise_indices(g, h, aam_key="atom_map")
        order = sorted(h.nodes)
        h2 = CanonRSMI.remap_graph(h, order)                      # list[int] form: position + 1
        h3 = CanonRSMI.remap_graph(h, [(i + 1, n) for i, n in enumerate(order)])
        CanonRSMI.sync_atom_map_with_index(h2)
        CanonRSMI.sync_atom_map_with_index(h3)
        return dict(model=E.obs_mgraph(h2), full=[[list(p) for p in pairs], [list(p) for p in pairs2], E.obs_mgraph(h2), E.obs_mgraph(h3)])
    if op == "snew":
        from synkit.Chem.Reaction.standardize import Standardize
        objs[st["obj"]] = Standardize()
        return dict(model=None, full="new")
    if op == "std":
        from synkit.Chem.Reaction.standardize import Standardize
        s = objs[st["obj"]]
        api, r = st.get("api", "fit"), st["rsmi"]
        try:
            if api == "fit":
                v = s.fit(r, remove_aam=st.get("remove_aam", True), ignore_stereo=st.get("ignore_stereo", True))
            elif api == "fit_pos":
                v = s.fit(r, st.get("remove_aam", True), st.get("ignore_stereo", True))
            elif api == "fit_default":
                v = s.fit(r)
            elif api == "std_rsmi":
                v = Standardize.standardize_rsmi(r, stereo=not st.get("ignore_stereo", True))
            elif api == "rm_aam":
                v = s.remove_atom_mapping(r)
            elif api == "categorize":
                v = [list(x) for x in Standardize.categorize_reactions(list(st["others"]), r)]
            else:
                raise AssertionError(api)
        except ValueError as e:
            v = "ValueError"
        return dict(model=None, full=v)
    if op == "bnew":
        from synkit.Chem.Reaction.balance_check import BalanceReactionCheck
        objs[st["obj"]] = BalanceReactionCheck(n_jobs=st.get("n_jobs", 1)) if not st.get("pos") else BalanceReactionCheck(st.get("n_jobs", 1), 0)
        return dict(model=None, full="new")
    if op == "bal":
        from synkit.Chem.Reaction.balance_check import BalanceReactionCheck
        b = objs[st["obj"]]
        api, rs, col = st.get("api", "rsmi"), list(st["rsmis"]), st.get("column", "reactions")
        if api == "rsmi":
            vs = [b.rsmi_balance_check(r) for r in rs]
            return dict(model=vs, full=vs)
        if api == "formula":
            v = [[BalanceReactionCheck.get_combined_molecular_formula(x) for x in BalanceReactionCheck.parse_reaction(r)] for r in rs]
            return dict(model=None, full=v)
        if api == "dict":
            outs = [BalanceReactionCheck.dict_balance_check({col: r, "id": i, "balanced": "old"}, col) for i, r in enumerate(rs)]
            vs = [o["balanced"] for o in outs]
            return dict(model=vs, full=[vs, [sorted(o.keys()) for o in outs], [o.get(col) for o in outs]])
        if api in ("dicts", "dicts_str", "dicts_one"):
            if api == "dicts":
                inp = [{col: r, "id": i} for i, r in enumerate(rs)]
                bal, unb = b.dicts_balance_check(inp, col) if st.get("pos") else b.dicts_balance_check(inp, rsmi_column=col)
            elif api == "dicts_str":
                inp = list(rs)
                bal, unb = b.dicts_balance_check(inp)
            else:
                inp = rs[0]
                bal, unb = b.dicts_balance_check(inp)
            key = col if api == "dicts" else "reactions"
            nb = [x[key] for x in bal]
            nu = [x[key] for x in unb]
            flags_ok = all(x["balanced"] is True for x in bal) and all(x["balanced"] is False for x in unb)
            ins = rs if api != "dicts_one" else rs[:1]
            vs = [(r in nb) for r in ins]
            full = [vs, nb, nu, flags_ok, len(bal) + len(unb)]
            if api == "dicts":          # records carry their position as "id": repeated reactions stay distinguishable
                ib, iu = [x.get("id", -1) for x in bal], [x.get("id", -1) for x in unb]
                part = [[i in ib for i in range(len(ins))], ib, iu]
            else:
                part = [vs, [ins.index(x) if x in ins else -1 for x in nb], [ins.index(x) if x in ins else -1 for x in nu]]
            if st.get("mutate"):
                for x in bal + unb:
                    x["balanced"] = not x["balanced"]
                    x[key] = "C>>CC"
                if isinstance(inp, list):
                    inp.clear()
            return dict(model=part, full=full)
        if api == "parse":
            v = [BalanceReactionCheck.parse_input(rs, col), BalanceReactionCheck.parse_input(rs[0] if rs else "", col),
                 BalanceReactionCheck.parse_input([{col: r} for r in rs] + [{"zz": 1}, 5], col)]
            return dict(model=None, full=v)
        raise AssertionError(api)
    raise AssertionError(op)


def _run(steps):
    worker_quiet()
    objs = {}
    out = []
    for st in steps:
        try:
            out.append(_step(st, objs))
        except Exception as e:
            out.append(dict(model=["EXC", type(e).__name__], full=["EXC", type(e).__name__, str(e)[:200]]))
    return out


def run_history(steps):
    return isolated(_run, steps)


def fresh_steps(steps, i):
    """the steps needed to evaluate step i alone: the constructor of its object + the step
    (for "props": the last "canon" of that object as well)"""
    st = steps[i]
    if st["op"] in ("new", "snew", "bnew", "mutate"):
        return None
    pre = []
    if "obj" in st:
        ctor = [s for s in steps[:i] if s["op"] in ("new", "snew", "bnew") and s["obj"] == st["obj"]]
        if not ctor:
            return None
        pre.append(ctor[-1])
        if st["op"] == "props":
            ic = [k for k, s in enumerate(steps[:i]) if s["op"] == "canon" and s["obj"] == st["obj"]]
            im = [k for k, s in enumerate(steps[:i]) if s["op"] == "mutate" and s["obj"] == st["obj"]]
            if not ic or (im and im[-1] > ic[-1]):
                return None
            pre.append(steps[ic[-1]])
    return pre + [dict(st, mutate=False)]


def run_fresh(steps, i):
    fs = fresh_steps(steps, i)
    if fs is None:
        return None
    r = isolated(_run, fs)
    if isinstance(r, list) and r and isinstance(r[-1], dict):
        return r[-1]
    return r
