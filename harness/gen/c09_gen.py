"""C09: generators and INDEPENDENT references (plain RDKit as a parser + networkx VF2 / Counter; no SynKit code).

Reference reading of a mapped reaction: every mapped atom becomes a node labelled with what RDKit reports for it
(symbol, formal charge, total H count, aromatic flag, sorted symbols of its neighbours); the reference ITS carries a
(reactant label | None, product label | None) pair per map number and a (reactant order, product order) pair per bond.
"Atom-map-equivalent" = these reference ITS graphs are isomorphic (VF2).
"""
import re
from collections import Counter

from . import c01_rsmi as R

_MAP = re.compile(r":(\d+)\]")


# ------------------------------------------------------------------ independent reading

def _mol(side):
    from rdkit import Chem
    mol = Chem.MolFromSmiles(side, sanitize=False)
    if mol is None:
        return None
    try:
        Chem.SanitizeMol(mol)
    except Exception:
        return None
    return mol


def read_side(side):
    """-> dict(nodes={map: label}, edges={frozenset(maps): order}, unmapped=int, dup=bool, natoms=int) or None"""
    mol = _mol(side)
    if mol is None:
        return None
    nodes, unm, dup = {}, 0, False
    for a in mol.GetAtoms():
        k = a.GetAtomMapNum()
        if k == 0:
            unm += 1
            continue
        if k in nodes:
            dup = True
        nodes[k] = (a.GetSymbol(), a.GetFormalCharge(), a.GetTotalNumHs(), a.GetIsAromatic(),
                    tuple(sorted(n.GetSymbol() for n in a.GetNeighbors())))
    edges = {}
    for b in mol.GetBonds():
        u, v = b.GetBeginAtom().GetAtomMapNum(), b.GetEndAtom().GetAtomMapNum()
        if u and v:
            edges[frozenset((u, v))] = b.GetBondTypeAsDouble()
    return dict(nodes=nodes, edges=edges, unmapped=unm, dup=dup, natoms=mol.GetNumAtoms())


def ref_its(rsmi):
    """reference ITS (networkx) of the mapped part, or None when a side cannot be read / has a duplicated map"""
    import networkx as nx
    if rsmi is None or rsmi.count(">>") != 1:
        return None
    a, b = rsmi.split(">>")
    ra, rb = read_side(a), read_side(b)
    if ra is None or rb is None or ra["dup"] or rb["dup"]:
        return None
    I = nx.Graph()
    for k in sorted(set(ra["nodes"]) | set(rb["nodes"])):
        I.add_node(k, lab=(ra["nodes"].get(k), rb["nodes"].get(k)))
    for e in set(ra["edges"]) | set(rb["edges"]):
        u, v = tuple(e)
        I.add_edge(u, v, ord=(ra["edges"].get(e, 0.0), rb["edges"].get(e, 0.0)))
    I.graph["unmapped"] = (ra["unmapped"], rb["unmapped"])
    I.graph["same_nodes"] = set(ra["nodes"]) == set(rb["nodes"])
    return I


def ref_rc(I, tolerant=False):
    """reference reaction centre: the bonds whose two orders differ (or that join two hydrogens) and their endpoints;
    tolerant (ignore_aromaticity=True): only bonds whose order changes by at least 1"""
    import networkx as nx
    rc = nx.Graph()
    for u, v, d in I.edges(data=True):
        hh = all((I.nodes[x]["lab"][0] or I.nodes[x]["lab"][1] or ("?",))[0] == "H" for x in (u, v))
        changed = abs(d["ord"][0] - d["ord"][1]) >= 1 if tolerant else d["ord"][0] != d["ord"][1]
        if changed or hh:
            for x in (u, v):
                rc.add_node(x, lab=I.nodes[x]["lab"])
            rc.add_edge(u, v, ord=d["ord"])
    return rc


def _nm(a, b):
    return a["lab"] == b["lab"]


def _em(a, b):
    return a["ord"] == b["ord"]


def iso(I1, I2):
    import networkx as nx
    if I1.number_of_nodes() != I2.number_of_nodes() or I1.number_of_edges() != I2.number_of_edges():
        return False
    if Counter(d["lab"] for _, d in I1.nodes(data=True)) != Counter(d["lab"] for _, d in I2.nodes(data=True)):
        return False
    return nx.is_isomorphic(I1, I2, node_match=_nm, edge_match=_em)


def automorphisms(I, limit=5000):
    from networkx.algorithms.isomorphism import GraphMatcher
    out = []
    for m in GraphMatcher(I, I, node_match=_nm, edge_match=_em).isomorphisms_iter():
        out.append(m)
        if len(out) >= limit:
            break
    return out


def transposition_is_automorphism(I, x, y):
    """is the transposition (x y) (everything else fixed) an automorphism of I ?"""
    if I.nodes[x]["lab"] != I.nodes[y]["lab"]:
        return False
    t = lambda n: y if n == x else (x if n == y else n)
    for n in (x, y):
        for m in I[n]:
            tn, tm = t(n), t(m)
            if not I.has_edge(tn, tm) or I[tn][tm]["ord"] != I[n][m]["ord"]:
                return False
    return True


def side_graph(side):
    """reference molecule graph of ALL atoms of a side (index ids): labels (symbol, aromatic, charge, H), bond orders"""
    import networkx as nx
    mol = _mol(side)
    if mol is None:
        return None
    g = nx.Graph()
    for a in mol.GetAtoms():
        g.add_node(a.GetIdx(), lab=(a.GetSymbol(), a.GetIsAromatic(), a.GetFormalCharge(), a.GetTotalNumHs()))
    for b in mol.GetBonds():
        g.add_edge(b.GetBeginAtomIdx(), b.GetEndAtomIdx(), ord=b.GetBondTypeAsDouble())
    return g


def all_distinguishable(side):
    """no non-trivial automorphism of the reactant graph (labels element, aromaticity, charge, H count, bond order)"""
    g = side_graph(side)
    if g is None:
        return None
    return len(automorphisms(g, limit=2)) == 1


def wl_colours_distinct(side, iterations=3):
    """networkx WL (the library, called directly) gives every atom its own colour after `iterations` rounds"""
    from networkx.algorithms.graph_hashing import weisfeiler_lehman_subgraph_hashes
    g = side_graph(side)
    if g is None:
        return None
    h = weisfeiler_lehman_subgraph_hashes(g, node_attr="lab", edge_attr="ord", iterations=iterations)
    cols = [v[-1] for v in h.values()]
    return len(set(cols)) == len(cols)


def formula(side):
    """(Counter of element symbols with hydrogens counted as H atoms, total formal charge) or None"""
    from rdkit import Chem
    mol = Chem.MolFromSmiles(side)
    if mol is None:
        return None
    c = Counter()
    q = 0
    for a in mol.GetAtoms():
        c[a.GetSymbol()] += 1
        h = a.GetTotalNumHs()
        if h:
            c["H"] += h
        q += a.GetFormalCharge()
    return c, q


def ref_balanced(rsmi):
    if rsmi.count(">>") != 1:
        return None
    a, b = rsmi.split(">>")
    fa, fb = formula(a), formula(b)
    if fa is None or fb is None:
        return None
    return fa == fb


# ------------------------------------------------------------------ generators (all randomness from the harness PRNG)

def corpus():
    return [(s, i, r) for s, i, r in R.load_corpus() if R.well_formed(r)]


def swap_product_maps(rsmi, x, y):
    a, b = rsmi.split(">>")
    b2 = _MAP.sub(lambda m: ":%d]" % (y if int(m.group(1)) == x else (x if int(m.group(1)) == y else int(m.group(1)))), b)
    return a + ">>" + b2


def centre_swaps(rsmi, rng, per_kind=1):
    """[(kind, x, y, swapped rsmi)]: kind 'eq' = the transposition is an automorphism of the reference ITS (the swapped string
    denotes the SAME mapping); 'noneq' = no automorphism of the reference centre exchanges x and y; 'other' = the rest."""
    I = ref_its(rsmi)
    if I is None:
        return []
    rc = ref_rc(I)
    cn = sorted(rc.nodes)
    if len(cn) < 2:
        return []
    auts = automorphisms(rc, limit=2000)
    exch = {(m_x, m[m_x]) for m in auts for m_x in m if m[m[m_x]] == m_x and m[m_x] != m_x}
    byk = {"eq": [], "noneq": [], "other": []}
    for i, x in enumerate(cn):
        for y in cn[i + 1:]:
            if transposition_is_automorphism(I, x, y):
                byk["eq"].append((x, y))
            elif (x, y) not in exch:
                byk["noneq"].append((x, y))
            else:
                byk["other"].append((x, y))
    if not byk["eq"]:
        # no interchangeable pair inside the centre: take one anywhere in the ITS (e.g. the oxygens of a sulfonyl group)
        ns = sorted(I.nodes)
        for i, x in enumerate(ns):
            for y in ns[i + 1:]:
                if I.nodes[x]["lab"] == I.nodes[y]["lab"] and transposition_is_automorphism(I, x, y):
                    byk["eq"].append((x, y))
            if len(byk["eq"]) >= 4:
                break
    out = []
    for k in ("noneq", "eq", "other"):
        ps = byk[k]
        for (x, y) in (rng.sample(ps, per_kind) if len(ps) > per_kind else ps):
            out.append((k, x, y, swap_product_maps(rsmi, x, y)))
    return out


def _strip_maps(frag):
    return _MAP.sub("]", frag)


def _edit_atom(side, rng, what):
    """change the formal charge (+1/-1) or the hydrogen count (+1/-1) of one atom; returns a SMILES or None"""
    from rdkit import Chem
    mol = Chem.MolFromSmiles(side)
    if mol is None or mol.GetNumAtoms() == 0:
        return None
    mol = Chem.RWMol(mol)
    idxs = list(range(mol.GetNumAtoms()))
    rng.shuffle(idxs)
    for i in idxs[:6]:
        m2 = Chem.RWMol(mol)
        a = m2.GetAtomWithIdx(i)
        h = a.GetTotalNumHs()
        if what == "charge":
            a.SetFormalCharge(a.GetFormalCharge() + rng.choice((1, -1)))
        elif what == "dropH":
            if h == 0:
                continue
            h -= 1
        else:
            h += 1
        a.SetNoImplicit(True)
        a.SetNumExplicitHs(h)
        try:
            s = Chem.MolToSmiles(m2, canonical=False)
        except Exception:
            continue
        if Chem.MolFromSmiles(s) is not None:
            return s
    return None


def unbalanced_variants(rsmi, rng):
    """[(kind, rsmi')]: delete a fragment, duplicate a fragment (copy unmapped), change a charge, drop / add a hydrogen"""
    a, b = rsmi.split(">>")
    fa, fb = a.split("."), b.split(".")
    out = []
    side = rng.randrange(2)
    fr = [list(fa), list(fb)]
    if len(fr[side]) < 2:
        side = 1 - side
    if len(fr[side]) >= 2:
        k = rng.randrange(len(fr[side]))
        fr2 = [list(fa), list(fb)]
        del fr2[side][k]
        out.append(("del", ".".join(fr2[0]) + ">>" + ".".join(fr2[1])))
    side = rng.randrange(2)
    k = rng.randrange(len(fr[side]))
    fr2 = [list(fa), list(fb)]
    fr2[side].insert(rng.randrange(len(fr2[side]) + 1), _strip_maps(fr[side][k]))
    out.append(("dup", ".".join(fr2[0]) + ">>" + ".".join(fr2[1])))
    side = rng.randrange(2)
    hf = rng.choice(("[H+]", "[H][H]", "[H]", "[OH-]"))
    out.append(("addHfrag", (a + "." + hf + ">>" + b) if side == 0 else (a + ">>" + b + "." + hf)))
    for what in ("charge", "dropH", "addH"):
        side = rng.randrange(2)
        s = _edit_atom((a, b)[side], rng, what)
        if s is not None:
            out.append((what, (s + ">>" + b) if side == 0 else (a + ">>" + s)))
    return out


def add_explicit_h(rsmi, rng):
    """balanced rewriting: make the hydrogens of one reactant atom explicit atoms (unmapped) on the reactant side only"""
    from rdkit import Chem
    a, b = rsmi.split(">>")
    mol = Chem.MolFromSmiles(a)
    if mol is None:
        return None
    cand = [x.GetIdx() for x in mol.GetAtoms() if x.GetTotalNumHs() > 0]
    if not cand:
        return None
    m2 = Chem.AddHs(mol, onlyOnAtoms=[rng.choice(cand)])
    return Chem.MolToSmiles(m2, canonical=False) + ">>" + b


def unmap_some(rsmi, rng):
    """partially mapped variant: remove the map numbers of a random subset of atoms on BOTH sides (same subset)"""
    ms = R.map_numbers(rsmi)
    if len(ms) < 3:
        return None
    drop = set(rng.sample(ms, rng.randint(1, max(1, len(ms) // 3))))
    return _MAP.sub(lambda m: "]" if int(m.group(1)) in drop else m.group(0), rsmi)


def renumber_big(rsmi, rng):
    """renumbering into three- and four-digit map numbers"""
    ms = R.map_numbers(rsmi)
    new = rng.sample(range(100, 2500), len(ms))
    table = dict(zip(ms, new))
    return _MAP.sub(lambda m: ":%d]" % table[int(m.group(1))], rsmi)
