"""C02 round 3: HISTORY cases — one case is a script of steps run in ONE process on ONE shared ITS object.

Steps (JSON lists):
  queries   ["rc"]                               get_rc(I)
            ["rcx", keys, disc, keep, style]     get_rc with options; style "kw" | "pos" (all five options positionally)
            ["k", k]                             RadiusExpand.extract_k(I, k)
            ["hk", k]                            HierContext.extract_k(I, n_knn=k)      (inherited static method)
            ["ctx", k]                           RadiusExpand.context_extraction({"ITS": I}, n_knn=k)["K"]
            ["ctx2", k]                          context_extraction({"its": I}, "its", "ctx", k)["ctx"]   (positional keys)
            ["list", k, n, jobs]                 paralle_context_extraction([{"ITS": I}] * n, n_jobs=jobs, n_knn=k): the same object n times
            ["uneq"]                             find_unequal_order_edges(I)
            ["rne"]                              remove_normal_edges(I, "standard_order")
            ["nn", k]                            find_nearest_neighbors(I, list(get_rc(I).nodes()), k)      (k None: default n_knn)
            ["sub", ids]                         extract_subgraph(I, ids)
            ["rck", k]                           get_rc(extract_k(I, k)): the centre of a context (theorem C02_rc_of_context: = the centre)
            ["kk", k2, k]                        extract_k(extract_k(I, k2), k): a context of a context (theorem C02_ctx_of_ctx: = extract_k(I, k) for 1 <= k <= k2)
            ["list2", k, n]                      paralle_context_extraction([{"its": I}] * n, "its", "ctx", 1, 0, k)   (all positional)
            k = None in "k" / "ctx" / "nn": the argument is omitted (defaults n_knn = 0, 0, 1)
  edits of the ITS in place
            ["set_edge", u, v, a, b, std]  ["add_edge", u, v, a, b, std]  ["del_edge", u, v]
            ["set_el", n, el]  ["set_chg", n, c]  ["add_node", n, el]  ["del_node", n]  ["set_mtg", u, v, flag]
  mutation of an earlier RESULT by the caller
            ["mut_res", j, how]   j = index of the query whose returned graph is edited; how = "del_node" | "set_attr" | "clear" | "nb_append"

The model is pure: the model term of a history is the list of fresh evaluations on the successive ITS VALUES, which
`value_after` computes on the JSON representation (never on the shared networkx object).
"""
import copy

from . import c01_enc as E
from . import c02_enc as X

QUERIES = ("rc", "rcx", "k", "hk", "ctx", "ctx2", "list", "list2", "uneq", "rne", "nn", "sub", "rck", "kk")


def is_query(step):
    return step[0] in QUERIES


# ------------------------------------------------------------------ the ITS value after an edit (pure, on JSON)

def apply_edit_json(g, step):
    g = copy.deepcopy(g)
    op = step[0]
    if op == "set_edge":
        _, u, v, a, b, std = step
        for e in g["edges"]:
            if {e[0], e[1]} == {u, v}:
                e[2]["order"] = [a, b]
                e[2]["standard_order"] = std
    elif op == "set_mtg":
        _, u, v, fl = step
        for e in g["edges"]:
            if {e[0], e[1]} == {u, v}:
                e[2]["is_mtg"] = fl
    elif op == "add_edge":
        _, u, v, a, b, std = step
        g["edges"].append([u, v, {"order": [a, b], "standard_order": std}])
    elif op == "del_edge":
        _, u, v = step
        g["edges"] = [e for e in g["edges"] if {e[0], e[1]} != {u, v}]
    elif op == "set_el":
        _, n, el = step
        for m, a in g["nodes"]:
            if m == n:
                a["element"] = el
                a["typesGH"] = [[el] + list(a["typesGH"][0][1:]), [el] + list(a["typesGH"][1][1:])]
    elif op == "set_chg":
        _, n, c = step
        for m, a in g["nodes"]:
            if m == n:
                a["typesGH"] = [list(a["typesGH"][0]), list(a["typesGH"][1][:3]) + [c] + list(a["typesGH"][1][4:])]
    elif op == "add_node":
        _, n, el = step
        g["nodes"].append([n, {"element": el, "charge": 0, "atom_map": n, "typesGH": [[el, False, 0, 0, []], [el, False, 0, 0, []]]}])
    elif op == "del_node":
        _, n = step
        g["nodes"] = [x for x in g["nodes"] if x[0] != n]
        g["edges"] = [e for e in g["edges"] if n not in e[:2]]
    else:
        raise AssertionError(op)
    return g


def apply_edit_nx(I, step):
    op = step[0]
    if op == "set_edge":
        _, u, v, a, b, std = step
        I[u][v]["order"] = (a, b)
        I[u][v]["standard_order"] = std
    elif op == "set_mtg":
        I[step[1]][step[2]]["is_mtg"] = step[3]
    elif op == "add_edge":
        _, u, v, a, b, std = step
        I.add_edge(u, v, order=(a, b), standard_order=std)
    elif op == "del_edge":
        I.remove_edge(step[1], step[2])
    elif op == "set_el":
        _, n, el = step
        d = I.nodes[n]
        d["element"] = el
        d["typesGH"] = ((el,) + tuple(d["typesGH"][0][1:]), (el,) + tuple(d["typesGH"][1][1:]))
    elif op == "set_chg":
        _, n, c = step
        d = I.nodes[n]
        d["typesGH"] = (tuple(d["typesGH"][0]), tuple(d["typesGH"][1][:3]) + (c,) + tuple(d["typesGH"][1][4:]))
    elif op == "add_node":
        _, n, el = step
        I.add_node(n, element=el, charge=0, atom_map=n, typesGH=((el, False, 0, 0, []), (el, False, 0, 0, [])))
    elif op == "del_node":
        I.remove_node(step[1])
    else:
        raise AssertionError(op)


def values(case):
    """the ITS value seen by every step: [(step, json value before the step)]"""
    g = case["I"]
    out = []
    for st in case["hist"]:
        out.append((st, g))
        if not is_query(st) and st[0] != "mut_res":
            g = apply_edit_json(g, st)
    return out, g


# ------------------------------------------------------------------ running one query

def strip_mtg(g):
    return {"nodes": g["nodes"], "edges": [[u, v, {k: x for k, x in a.items() if k != "is_mtg"}] for u, v, a in g["edges"]]}


def run_query(I, st, keyobjs=None):
    """-> (returned object(s) as a list of graphs or None, observable).
    keyobjs: {tuple(keys): list object}: one history passes the SAME list object for equal element_key values"""
    from synkit.Graph.ITS.its_decompose import get_rc
    from synkit.Graph.Context.radius_expand import RadiusExpand
    from ..tok import S
    op = st[0]
    if op == "rc":
        r = get_rc(I)
        return [r], X.obs_xits(r)
    if op == "rcx":
        _, keys, disc, keep, style = st
        kl = list(keys) if keyobjs is None else keyobjs.setdefault(tuple(keys), list(keys))
        if style == "pos":
            r = get_rc(I, kl, "order", "standard_order", disc, keep)
        else:
            r = get_rc(I, keep_mtg=keep, disconnected=disc, element_key=kl)
        return [r], X.obs_xits(r)
    if op == "k":
        r = RadiusExpand.extract_k(I) if st[1] is None else RadiusExpand.extract_k(I, st[1])
        return [r], X.obs_ctx(r)
    if op == "kk":
        r = RadiusExpand.extract_k(RadiusExpand.extract_k(I, st[1]), st[2])
        return [r], X.obs_ctx(r)
    if op == "rck":
        r = get_rc(RadiusExpand.extract_k(I, st[1]))
        r0 = r.copy()
        for _, _, d in r0.edges(data=True):        # the model term extracts from the ITS value WITHOUT is_mtg attributes (the its type has none)
            d["is_mtg"] = False
        return [r], X.obs_xits(r0)
    if op == "sub":
        r = RadiusExpand.extract_subgraph(I, list(st[1]))
        return [r], X.obs_ctx(r)
    if op == "list2":
        _, k, n = st
        data = [{"its": I, "id": i} for i in range(n)]
        out = RadiusExpand.paralle_context_extraction(data, "its", "ctx", 1, 0, k)
        return [d["ctx"] for d in out], [X.obs_ctx(d["ctx"]) for d in out]
    if op == "hk":
        from synkit.Graph.Context.hier_context import HierContext
        r = HierContext.extract_k(I, n_knn=st[1])
        return [r], X.obs_ctx(r)
    if op == "ctx":
        d = {"ITS": I}
        o = RadiusExpand.context_extraction(d) if st[1] is None else RadiusExpand.context_extraction(d, n_knn=st[1])
        return [o["K"]], X.obs_ctx(o["K"])
    if op == "ctx2":
        d = {"its": I, "ITS": None}
        o = RadiusExpand.context_extraction(d, "its", "ctx", st[1])
        return [o["ctx"]], X.obs_ctx(o["ctx"])
    if op == "list":
        _, k, n, jobs = st
        data = [{"ITS": I, "id": i} for i in range(n)]
        out = RadiusExpand.paralle_context_extraction(data, n_jobs=jobs, n_knn=k)
        return [d["K"] for d in out], [X.obs_ctx(d["K"]) for d in out]
    if op == "uneq":
        return None, S(sorted(RadiusExpand.find_unequal_order_edges(I)))
    if op == "rne":
        r = RadiusExpand.remove_normal_edges(I, "standard_order")
        return [r], X.obs_ctx(r)
    if op == "nn":
        if st[1] is None:
            r = RadiusExpand.find_nearest_neighbors(I, list(get_rc(I).nodes()))
        else:
            r = RadiusExpand.find_nearest_neighbors(I, list(get_rc(I).nodes()), st[1])
        return None, S(sorted(r))
    raise AssertionError(op)


def mutate_result(r, how):
    if how == "clear":
        r.clear()
    elif how == "del_node":
        if r.number_of_nodes():
            r.remove_node(next(iter(r.nodes)))
    elif how == "set_attr":
        for n in list(r.nodes)[:2]:
            r.nodes[n]["element"] = "Xx"
            r.nodes[n]["charge"] = 99
        for u, v in list(r.edges)[:2]:
            r[u][v]["order"] = (9, 9)
            r[u][v]["standard_order"] = 9
    elif how == "nb_append":
        for n in r.nodes:
            if isinstance(r.nodes[n].get("neighbors"), list):
                r.nodes[n]["neighbors"].append("Zz")
            gh = r.nodes[n].get("typesGH")
            if gh is not None and isinstance(gh[0][4], list):
                gh[0][4].append("Zz")
    else:
        raise AssertionError(how)


def graph_eq(A, B):
    def norm(x):
        return E._js(x)
    return {n: {k: norm(v) for k, v in d.items()} for n, d in A.nodes(data=True)} == {n: {k: norm(v) for k, v in d.items()} for n, d in B.nodes(data=True)} and \
        {frozenset(e[:2]): {k: norm(v) for k, v in e[2].items()} for e in A.edges(data=True)} == \
        {frozenset(e[:2]): {k: norm(v) for k, v in e[2].items()} for e in B.edges(data=True)}


def run_history(case, judge):
    """Run the script on ONE shared ITS object.  -> (observables of the query steps, failures).
    judge=True: every query's answer is compared with the answer on a FRESH object built from the JSON value; after every
    step the shared ITS must still be its JSON value (no aliasing with results); results are not changed by later steps."""
    vals, _final = values(case)
    I = E.to_nx(case["I"])
    obs, fails = [], []
    keyobjs = {}
    results = []                 # per query: (list of returned graphs or None, deep-copied snapshot or None, mutated?)
    for i, (st, g) in enumerate(vals):
        if is_query(st):
            ret, o = run_query(I, st, keyobjs)
            obs.append(o)
            if judge and any(list(k) != v for k, v in keyobjs.items()):
                fails.append(dict(clause="history-argument-mutated", detail="step %d %r changed the element_key list it was given: %r" % (i, st, keyobjs)))
                keyobjs.clear()
            results.append([ret, copy.deepcopy(ret) if (judge and ret is not None) else None, False])
            if judge:
                _, o_fresh = run_query(E.to_nx(g), st)
                if E._js(_plain(o)) != E._js(_plain(o_fresh)):
                    fails.append(dict(clause="history-step-fresh", detail="step %d %r on the shared ITS object answers %s; the same call on a fresh copy of the ITS answers %s; earlier steps: %r"
                                      % (i, st, _short(o), _short(o_fresh), [s for s, _ in vals[:i]])))
        elif st[0] == "mut_res":
            ret = results[st[1]][0]
            if ret is not None:
                for r in ret:
                    mutate_result(r, st[2])
                results[st[1]][2] = True
        else:
            apply_edit_nx(I, st)
        if judge:
            cur = apply_edit_json(g, st) if (not is_query(st) and st[0] != "mut_res") else g
            if not graph_eq(I, E.to_nx(cur)):
                fails.append(dict(clause="history-its-changed", detail="after step %d %r the shared ITS is no longer the value it should have (a result aliases the ITS, or a call mutated it)" % (i, st)))
                break
    if judge:
        for j, (ret, snap, mutated) in enumerate(results):
            if ret is not None and not mutated and any(not graph_eq(a, b) for a, b in zip(ret, snap)):
                fails.append(dict(clause="history-result-changed", detail="the graph returned by query %d changed after it was returned (it aliases the ITS or another result)" % j))
    return obs, fails


def _plain(o):
    if isinstance(o, dict) and set(o) == {"__set__"}:
        return sorted((_plain(x) for x in o["__set__"]), key=repr)
    if isinstance(o, (list, tuple)):
        return [_plain(x) for x in o]
    return o


def _short(o):
    s = repr(_plain(o))
    return s if len(s) < 260 else s[:260] + "..."


# ------------------------------------------------------------------ model term

def coq_history(case):
    terms = []
    for st, g in values(case)[0]:
        if not is_query(st):
            continue
        op = st[0]
        if op == "rc":
            terms.append("txits (get_rc_x K_default false false %s)" % X.coq_xits(g))
        elif op == "rcx":
            terms.append("txits (get_rc_x %s %s %s %s)" % (X.coq_keys(st[1]), E.cb(st[2]), E.cb(st[3]), X.coq_xits(g)))
        elif op in ("k", "hk", "ctx", "ctx2"):
            terms.append("tctx (extract_k_z %s (%d))" % (E.coq_its(strip_mtg(g)), 0 if st[1] is None else st[1]))
        elif op in ("list", "list2"):
            terms.append("tlist (fun p : its * its => tctx (snd p)) (context_list %s (%d))"
                         % ("[" + "; ".join([E.coq_its(strip_mtg(g))] * st[2]) + "]", st[1]))
        elif op == "kk":
            terms.append("tctx (extract_k_z (extract_k_z %s (%d)) (%d))" % (E.coq_its(strip_mtg(g)), st[1], st[2]))
        elif op == "rck":
            terms.append("txits (get_rc_x K_default false false (emb (extract_k_z %s (%d))))" % (E.coq_its(strip_mtg(g)), st[1]))
        elif op == "sub":
            terms.append("tctx (extract_subgraph %s [%s])" % (E.coq_its(strip_mtg(g)), "; ".join("%d%%N" % x for x in st[1])))
        elif op == "uneq":
            terms.append("tset tN (unequal_nodes %s)" % E.coq_its(strip_mtg(g)))
        elif op == "rne":
            terms.append("tctx (remove_normal %s)" % E.coq_its(strip_mtg(g)))
        elif op == "nn":
            lit = E.coq_its(strip_mtg(g))
            terms.append("tset tN (knn %s (node_ids (get_rc %s)) %d%%nat)" % (lit, lit, 1 if st[1] is None else st[1]))
    return "L [%s]" % "; ".join(terms)


# ------------------------------------------------------------------ generators

def _edges(g):
    return [(e[0], e[1], e[2]) for e in g["edges"]]


def pick_edit(rng, g, preserve_counts):
    """one in-place edit of the ITS value g that changes the centre or the distances"""
    es = _edges(g)
    ids = [n for n, _ in g["nodes"]]
    els = {n: a["element"] for n, a in g["nodes"]}
    unchanged = [(u, v, a) for u, v, a in es if a["standard_order"] == 0]
    changed = [(u, v, a) for u, v, a in es if a["standard_order"] != 0]
    choices = []
    if unchanged:
        u, v, a = rng.choice(unchanged)
        o = a["order"][0]
        nb = rng.choice([x for x in (0, 1, 2) if x != o])
        choices.append(["set_edge", u, v, o, nb, o - nb])                     # a further bond becomes changed
        choices.append(["set_el", rng.choice((u, v)), "H" if els[u] != "H" or els[v] != "H" else "C"])
    if changed:
        u, v, a = rng.choice(changed)
        o = max(a["order"]) or 1
        choices.append(["set_edge", u, v, o, o, 0])                           # a changed bond stops being changed
    choices.append(["set_chg", rng.choice(ids), rng.choice((1, -1))])
    if not preserve_counts:
        non = [(x, y) for i, x in enumerate(ids) for y in ids[i + 1:] if not any({x, y} == {u, v} for u, v, _ in es)]
        if non:
            x, y = rng.choice(non)
            a, b = rng.choice([(0, 1), (1, 1), (1, 0), (1, 2)])
            choices.append(["add_edge", x, y, a, b, a - b])
        if es:
            u, v, _ = rng.choice(es)
            choices.append(["del_edge", u, v])
        choices.append(["add_node", max(ids) + 1 + rng.randint(0, 3), rng.choice(("C", "H"))])
        if len(ids) > 1:
            choices.append(["del_node", rng.choice(ids)])
    return rng.choice(choices)


def q_default(rng, allow_minus1=False, g=None):
    z = rng.random()
    if g is not None and z < 0.12:
        ids = [n for n, _ in g["nodes"]]
        return ["sub", sorted(rng.sample(ids, rng.randint(0, len(ids))) + ([max(ids) + 50] if rng.random() < 0.3 else []))]
    if z < 0.2:
        return rng.choice((["k", None], ["ctx", None], ["nn", None], ["list2", rng.choice((0, 1, 2)), 2], ["rck", rng.choice((1, 2, 3))], ["kk", rng.choice((2, 3)), rng.choice((1, 2))]))
    if z < 0.45:
        return [rng.choice(("k", "k", "hk", "ctx", "ctx2")), rng.choice((1, 1, 2, 2, 3, 0) + ((-1,) if allow_minus1 else ()))]
    if z < 0.6:
        return ["rc"]
    if z < 0.7:
        return ["uneq"]
    if z < 0.8:
        return ["list", rng.choice((0, 1, 2)), rng.randint(2, 3), 1]
    if z < 0.9:
        return ["nn", rng.choice((1, 2))]
    return ["rne"]


def q_option(rng):
    return ["rcx", list(rng.choice(X.KEY_CHOICES)), rng.random() < 0.5, rng.random() < 0.5, rng.choice(("kw", "pos"))]


def gen_history(rng, base, flavour):
    """base: a JSON ITS (all labels, no is_mtg).  flavour in a|b|b2|c|d|e"""
    g = copy.deepcopy(base)
    steps = []

    def push(st):
        nonlocal g
        steps.append(st)
        if not is_query(st) and st[0] != "mut_res":
            g = apply_edit_json(g, st)

    if flavour == "a":                                    # several radii on the same object, in different orders
        ks = [0, 1, 2, 3, -1]
        rng.shuffle(ks)
        for k in ks[:rng.randint(3, 5)]:
            push([rng.choice(("k", "k", "hk", "ctx")), k])
    elif flavour in ("b", "b2"):                          # edited in place between extractions
        pc = flavour == "b"
        push(["k", rng.choice((1, 1, 2))] if rng.random() < 0.7 else q_default(rng))
        for _ in range(rng.randint(1, 2)):
            push(pick_edit(rng, g, pc))
            push(["k", rng.choice((1, 1, 2))] if rng.random() < 0.6 else q_default(rng, allow_minus1=pc))
        push(q_default(rng, allow_minus1=pc, g=g))
    elif flavour == "b3":                                 # rewiring: same centre, same node/edge counts, other distances
        k = rng.choice((1, 1, 2))
        q = [rng.choice(("k", "hk", "ctx", "nn")), k]
        push(q)
        es = _edges(g)
        ids = [n for n, _ in g["nodes"]]
        unchanged = [(u, v) for u, v, a in es if a["standard_order"] == 0]
        non = [(x, y) for i, x in enumerate(ids) for y in ids[i + 1:] if not any({x, y} == {u, v} for u, v, _ in es)]
        if unchanged and non:
            u, v = rng.choice(unchanged)
            x, y = rng.choice(non)
            push(["del_edge", u, v])
            push(["add_edge", x, y, 1, 1, 0])
        else:
            push(pick_edit(rng, g, True))
        push(q)
        push(["list", k, 2, 1])
    elif flavour == "c":                                  # non-default options first, then defaults; and the reverse
        if rng.random() < 0.5:
            es = _edges(g)
            if es:
                u, v, _ = rng.choice(es)
                push(["set_mtg", u, v, True])
        seq = [q_option(rng), q_default(rng), ["rc"], q_option(rng)]
        if rng.random() < 0.5:
            seq.reverse()
        for st in seq:
            push(st)
    elif flavour == "d":                                  # the caller edits a returned graph
        push(rng.choice((["rc"], ["k", 0], ["k", 1], ["ctx", 1], ["rne"])))
        push(["mut_res", 0, rng.choice(("del_node", "set_attr", "clear"))])
        push(steps[0])
        push(rng.choice((["k", 1], ["k", 2], ["rc"])))
        push(["mut_res", 2, rng.choice(("set_attr", "del_node"))])
        push(q_default(rng))
    elif flavour == "e":                                  # the same object several times in one list, edited between calls
        push(["list", rng.choice((1, 2)), 3, 1])
        push(pick_edit(rng, g, rng.random() < 0.5))
        push(["list", rng.choice((1, 2)), rng.randint(2, 3), rng.choice((1, 1, 2))])
        push(["k", 1])
    return steps
