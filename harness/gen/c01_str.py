"""C01 string half (model/C01_String.v): independent reading of RDKit molecules, Gallina literals of rmol,
instrumented runs of rsmi_to_its / its_to_rsmi that record the intermediate graphs, observables of RWMol contents,
explicit-hydrogen rewritings of mapped reactions.

All RDKit / SynKit imports are inside functions.
"""
from ..tok import S
from . import c01_enc as E

NODE_ATTRS = ["element", "aromatic", "hcount", "charge", "neighbors", "atom_map"]
EDGE_ATTRS = ["order"]


# ------------------------------------------------------------------ RDKit molecule -> rmol (plain RDKit getters, no SynKit code)

def sanitized_mol(smiles):
    """the two RDKit calls smiles_to_graph makes before MolToGraph: parse without sanitising, then SanitizeMol"""
    from rdkit import Chem
    mol = Chem.MolFromSmiles(smiles, sanitize=False)
    if mol is None:
        return None
    try:
        Chem.SanitizeMol(mol)
    except Exception:
        return None
    return mol


def read_rmol(mol):
    atoms = []
    for a in mol.GetAtoms():
        atoms.append([a.GetSymbol(), bool(a.GetIsAromatic()), int(a.GetTotalNumHs()), int(a.GetFormalCharge()),
                      int(a.GetAtomMapNum()), sorted(n.GetSymbol() for n in a.GetNeighbors())])
    bonds = [[b.GetBeginAtomIdx(), b.GetEndAtomIdx(), E.half(b.GetBondTypeAsDouble())] for b in mol.GetBonds()]
    return {"atoms": atoms, "bonds": bonds}


def coq_rmol(rm):
    """Gallina literal of type rmol.  The 'neighbors' lists RDKit reports (rm["atoms"][i][5]) are NOT handed to the model: the
    model computes them from the bonds (model/C01_Nbrs.v fill_nb: other ends of the atom's bonds, sorted by the bytes of the
    symbols), so that sorted(nb.GetSymbol() for nb in atom.GetNeighbors()) is inside the model and compared on every case."""
    ats = "; ".join("(RA0 %d%%N %s %s %s %d%%N)" % (E.elem_code(el), E.cb(ar), E.cZ(hs), E.cZ(ch), mp)
                    for el, ar, hs, ch, mp, nb in rm["atoms"])
    bs = "; ".join("(%d%%nat, %d%%nat, (%d))" % (b, e, o) for b, e, o in rm["bonds"])
    return "(fill_nb (RM0 [%s] [%s]))" % (ats, bs)


# ------------------------------------------------------------------ RWMol contents (mirror of twmol)

def obs_wmol(mol):
    """atoms as (element, charge, atom map, explicit H count); bonds through the atoms they join, both orientations"""
    ats = []
    for a in mol.GetAtoms():
        row = [E.elem_code(a.GetSymbol()), int(a.GetFormalCharge()), int(a.GetAtomMapNum()), int(a.GetNumExplicitHs())]
        if not a.GetNoImplicit():
            row.append("implicit-H-allowed")
        ats.append(row)
    bs = []
    for b in mol.GetBonds():
        i, j, c = b.GetBeginAtomIdx(), b.GetEndAtomIdx(), int(b.GetBondType())
        bs.append([ats[i], ats[j], c])
        bs.append([ats[j], ats[i], c])
    return [S(ats), S(bs)]


def wmol_of_graph(g):
    """GraphToMol on a graph, without sanitisation -> observable or None when RDKit refuses the construction"""
    from synkit.IO.graph_to_mol import GraphToMol
    try:
        mol = GraphToMol().graph_to_mol(g, sanitize=False, use_h_count=True)
    except Exception:
        return None
    return obs_wmol(mol)


# ------------------------------------------------------------------ instrumented pipeline

def run_pipeline(rsmi, explicit_hydrogen=False, write_explicit=False):
    """rsmi_to_graph, rsmi_to_its, its_to_rsmi on the real code; records what its_to_rsmi hands to implicit_hydrogen
    (the preserve set) and to GraphToMol (the two graphs).  -> dict"""
    import synkit.IO.chem_converter as cc
    import synkit.Graph.Hyrogen._misc as hm
    G, H = cc.rsmi_to_graph(rsmi)
    if G is None or H is None:
        return None
    I = cc.rsmi_to_its(rsmi, explicit_hydrogen=True) if explicit_hydrogen else cc.rsmi_to_its(rsmi)
    rec, pres = [], []
    orig_cls, orig_ih = cc.GraphToMol, hm.implicit_hydrogen

    class Rec(orig_cls):
        def graph_to_mol(self, graph, *a, **k):
            rec.append(graph.copy())
            return orig_cls.graph_to_mol(self, graph, *a, **k)

    def ih(graph, preserve_atom_maps, *a, **k):
        pres.append(sorted(preserve_atom_maps))
        return orig_ih(graph, preserve_atom_maps, *a, **k)

    cc.GraphToMol, hm.implicit_hydrogen = Rec, ih
    try:
        back = cc.its_to_rsmi(I, explicit_hydrogen=True) if write_explicit else cc.its_to_rsmi(I)
    finally:
        cc.GraphToMol, hm.implicit_hydrogen = orig_cls, orig_ih
    return dict(G=G, H=H, I=I, rec=rec, pres=pres, back=back)


def obs_pipeline(rsmi):
    r = run_pipeline(rsmi)
    if r is None:
        return []
    if len(r["rec"]) != 2 or len(r["pres"]) not in (0, 2) or (r["pres"] and r["pres"][0] != r["pres"][1]):
        return ["unexpected-call-pattern", len(r["rec"]), len(r["pres"])]
    hl = r["pres"][0] if r["pres"] else []
    w = [wmol_of_graph(g) for g in r["rec"]]
    return [E.obs_mgraph(r["G"]), E.obs_mgraph(r["H"]), E.obs_its(r["I"]), S(list(hl)),
            E.obs_mgraph(r["rec"][0]), E.obs_mgraph(r["rec"][1]),
            [w[0]] if w[0] is not None else [], [w[1]] if w[1] is not None else []]


def obs_its_eh(I):
    """observable of rsmi_to_its(explicit_hydrogen=True) (mirror of tinode_eh): the hydrogen atoms h_to_explicit adds carry no
    'neighbors' attribute, so its presence is reported as a flag and its value is not compared at top level"""
    ns = []
    for n, d in I.nodes(data=True):
        base = {"element", "charge", "atom_map", "typesGH", "aromatic", "hcount"}
        odd = sorted(set(d) - base - {"neighbors"}) + sorted("missing:" + k for k in base - set(d))
        row = [n, E.elem_code(d.get("element", "?")), E._int(d.get("charge", -99)), E._int(d.get("atom_map", -99)),
               [[E._bool(d["aromatic"]), E._int(d["hcount"])]] if "aromatic" in d and "hcount" in d else [],
               "neighbors" in d, E.obs_nattr(d["typesGH"][0]), E.obs_nattr(d["typesGH"][1])]
        if odd:
            row.append(odd)
        ns.append(row)
    es = []
    for u, v, d in I.edges(data=True):
        oa, ob = d["order"]
        row = [min(u, v), max(u, v), E.half(oa), E.half(ob), E.half(d["standard_order"])]
        odd = sorted(set(d) - {"order", "standard_order"})
        if odd:
            row.append(odd)
        es.append(row)
    return [S(ns), S(es)]


def obs_pipeline_eh(rsmi):
    r = run_pipeline(rsmi, explicit_hydrogen=True)
    if r is None:
        return []
    if len(r["rec"]) != 2 or len(r["pres"]) not in (0, 2) or (r["pres"] and r["pres"][0] != r["pres"][1]):
        return ["unexpected-call-pattern", len(r["rec"]), len(r["pres"])]
    hl = r["pres"][0] if r["pres"] else []
    w = [wmol_of_graph(g) for g in r["rec"]]
    return [obs_its_eh(r["I"]), S(list(hl)), E.obs_mgraph(r["rec"][0]), E.obs_mgraph(r["rec"][1]),
            [w[0]] if w[0] is not None else [], [w[1]] if w[1] is not None else []]


def obs_pipeline_opts(rsmi):
    """rsmi_to_its(core=True) and its_to_rsmi(explicit_hydrogen=True)"""
    import synkit.IO.chem_converter as cc
    r = run_pipeline(rsmi, write_explicit=True)
    if r is None:
        return []
    if len(r["rec"]) != 2 or r["pres"]:
        return ["unexpected-call-pattern", len(r["rec"]), len(r["pres"])]
    w = [wmol_of_graph(g) for g in r["rec"]]
    return [E.obs_its(cc.rsmi_to_its(rsmi, core=True)), E.obs_mgraph(r["rec"][0]), E.obs_mgraph(r["rec"][1]),
            [w[0]] if w[0] is not None else [], [w[1]] if w[1] is not None else []]


def coq_pipeline(rsmi, explicit_hydrogen=False, opts=False):
    a, b = rsmi.split(">>")
    ma, mb = sanitized_mol(a), sanitized_mol(b)
    if ma is None or mb is None:
        return None
    return "%s %s %s" % ("run_str_opts" if opts else ("run_str_eh" if explicit_hydrogen else "run_str"), coq_rmol(read_rmol(ma)), coq_rmol(read_rmol(mb)))


# ------------------------------------------------------------------ MolToGraph.transform alone

DECOY = "[CH3:91][CH2:92][CH2:93][CH:94]([OH:99])[CH2:95][CH2:96][c:97]1[cH:98][cH:100][cH:101][cH:102][cH:103]1"


def obs_m2g(smiles, drop, use, api="transform"):
    """MolToGraph through every entry point that builds the six-attribute graph: transform (converter object used twice),
    transform_store + .graph, the classmethod mol_to_graph (light-weight and detailed, projected on the six attributes),
    and chem_converter.smiles_to_graph"""
    from synkit.IO.mol_to_graph import MolToGraph
    mol = sanitized_mol(smiles)
    if mol is None:
        return ["unparsable"]
    try:
        if api == "smiles_to_graph":
            import synkit.IO.chem_converter as cc
            g = cc.smiles_to_graph(smiles, drop, True, use)
            return [E.obs_mgraph(g)] if g is not None else []
        if api in ("light", "detailed"):
            g = MolToGraph.mol_to_graph(mol, drop, api == "light", use)
            if api == "detailed":
                import networkx as nx
                p = nx.Graph()
                for n, d in g.nodes(data=True):
                    p.add_node(n, **{k: d[k] for k in NODE_ATTRS if k in d})
                for u, v, d in g.edges(data=True):
                    p.add_edge(u, v, **{k: d[k] for k in EDGE_ATTRS if k in d})
                return [E.obs_mgraph(p)]
            # light-weight builder (model/C01_Builders.v light_graph): a node may have been created by add_edge only (no attributes)
            def row(n, d):
                odd = sorted(set(d) - set(E.NODE_KEYS) - {"neighbors"}) + sorted("missing:" + k for k in set(E.NODE_KEYS) - set(d))
                r = [n, E.elem_code(d.get("element", "?")), E._bool(d.get("aromatic", False)), E._int(d.get("hcount", -99)),
                     E._int(d.get("charge", -99)), [[E.elem_code(x) for x in d["neighbors"]]] if "neighbors" in d else [], E._int(d.get("atom_map", -99))]
                return r + [odd] if odd else r
            ns = [[n, [row(n, d)] if d else []] for n, d in g.nodes(data=True)]
            es = [[min(u, v), max(u, v), E.half(d["order"])] for u, v, d in g.edges(data=True)]
            return [[S(ns), S(es)]]
        conv = MolToGraph(node_attrs=NODE_ATTRS, edge_attrs=EDGE_ATTRS)
        # the converter object is used twice: first on a decoy molecule (state left behind must not leak into the second call)
        conv.transform(sanitized_mol(DECOY), drop_non_aam=False, use_index_as_atom_map=True)
        if api == "store":
            g = conv.transform_store(mol, drop_non_aam=drop, use_index_as_atom_map=use).graph
            if conv.graph is not g:
                return ["graph-property-not-stable"]
        else:
            g = conv.transform(mol, drop_non_aam=drop, use_index_as_atom_map=use)
    except ValueError:
        return []
    return [E.obs_mgraph(g)]


def coq_m2g(smiles, drop, use, api="transform"):
    mol = sanitized_mol(smiles)
    if mol is None:
        return None
    run = {"light": "run_m2g_light", "detailed": "run_m2g_detailed"}.get(api, "run_m2g")      # the legacy builders have loop models of their own
    return "%s %s %s %s" % (run, E.cb(drop), E.cb(use), coq_rmol(read_rmol(mol)))


# ------------------------------------------------------------------ implicit_hydrogen + GraphToMol alone

def obs_ih(gjson, pres):
    from synkit.Graph.Hyrogen._misc import implicit_hydrogen
    from synkit.IO.chem_converter import graph_to_smi  # noqa: F401  (import check only)
    g1 = implicit_hydrogen(E.to_nx(gjson), set(pres))
    g2 = E.to_nx(gjson) if len(pres) == 0 else implicit_hydrogen(E.to_nx(gjson), set(pres))
    w = wmol_of_graph(g2)
    return [E.obs_mgraph(g1), E.obs_mgraph(g2), [w] if w is not None else []]


def coq_ih(gjson, pres):
    return "run_ih %s [%s]" % (E.coq_mgraph(gjson), "; ".join(E.cZ(x) for x in pres))


# ------------------------------------------------------------------ explicit-hydrogen rewriting of a mapped reaction

def explicit_h_rewrite(rsmi, rng, p_spectator=0.3):
    """Make hydrogens explicit and mapped, consistently on both sides (a reproducible rewriting; PRNG = harness rng):
      * spectator H: on atoms present on both sides with the same H count, with probability p_spectator each atom gets
        ALL its hydrogens as explicit mapped atoms on both sides (same map numbers, same parent);
      * reacting H: every atom whose H count drops from reactant to product gives its surplus hydrogens as explicit mapped
        atoms; they are handed (in PRNG order) to the atoms whose H count grows.  Only done when the two totals agree.
    Returns the new reaction SMILES (non-canonical writer), or None if RDKit cannot do it."""
    from rdkit import Chem
    a, b = rsmi.split(">>")
    ma, mb = Chem.MolFromSmiles(a), Chem.MolFromSmiles(b)
    if ma is None or mb is None:
        return None
    ha = {x.GetAtomMapNum(): x for x in ma.GetAtoms() if x.GetAtomMapNum()}
    hb = {x.GetAtomMapNum(): x for x in mb.GetAtoms() if x.GetAtomMapNum()}
    if len(ha) != sum(1 for x in ma.GetAtoms() if x.GetAtomMapNum()) or set(ha) != set(hb):
        return None
    nxt = max(ha) + 1
    plan_a, plan_b = [], []          # (parent map, hydrogen map)
    donors, acceptors = [], []
    for k in sorted(ha):
        if ha[k].GetSymbol() == "H" or hb[k].GetSymbol() == "H":
            continue
        na, nb_ = ha[k].GetTotalNumHs(), hb[k].GetTotalNumHs()
        # hydrogens already explicit are counted by GetTotalNumHs only when they are not graph atoms; use implicit+explicit-count
        na, nb_ = ha[k].GetNumImplicitHs() + ha[k].GetNumExplicitHs(), hb[k].GetNumImplicitHs() + hb[k].GetNumExplicitHs()
        if na == nb_ and na > 0 and rng.random() < p_spectator:
            for _ in range(na):
                plan_a.append((k, nxt))
                plan_b.append((k, nxt))
                nxt += 1
        elif na > nb_:
            donors += [k] * (na - nb_)
        elif nb_ > na:
            acceptors += [k] * (nb_ - na)
    if donors and len(donors) == len(acceptors):
        rng.shuffle(acceptors)
        for d, acc in zip(donors, acceptors):
            plan_a.append((d, nxt))
            plan_b.append((acc, nxt))
            nxt += 1
    if not plan_a:
        return None

    def apply(mol, plan):
        rw = Chem.RWMol(mol)
        idx = {x.GetAtomMapNum(): x.GetIdx() for x in rw.GetAtoms() if x.GetAtomMapNum()}
        per = {}
        for parent, hm in plan:
            per.setdefault(parent, []).append(hm)
        for parent, hms in per.items():
            p = rw.GetAtomWithIdx(idx[parent])
            tot = p.GetNumImplicitHs() + p.GetNumExplicitHs()
            p.SetNoImplicit(True)
            p.SetNumExplicitHs(max(0, tot - len(hms)))
            for hm in hms:
                h = Chem.Atom("H")
                h.SetAtomMapNum(hm)
                h.SetNoImplicit(True)
                hi = rw.AddAtom(h)
                rw.AddBond(idx[parent], hi, Chem.BondType.SINGLE)
        m = rw.GetMol()
        Chem.SanitizeMol(m)
        return Chem.MolToSmiles(m, canonical=False)

    try:
        return apply(ma, plan_a) + ">>" + apply(mb, plan_b)
    except Exception:
        return None


# ------------------------------------------------------------------ graph_to_rsmi(r, p, its=None | its) and GraphToMol options

def obs_g2r(rsmi):
    import synkit.IO.chem_converter as cc
    G, H = cc.rsmi_to_graph(rsmi)
    if G is None or H is None:
        return []
    out = []
    for with_its in (False, True):
        rec = []
        orig = cc.GraphToMol

        class Rec(orig):
            def graph_to_mol(self, graph, *a, **k):
                rec.append(graph.copy())
                return orig.graph_to_mol(self, graph, *a, **k)
        g, h = G.copy(), H.copy()          # implicit_hydrogen edits its argument in place (shallow copy): hand over copies
        its = cc.ITSConstruction().ITSGraph(G, H) if with_its else None
        cc.GraphToMol = Rec
        try:
            cc.graph_to_rsmi(g, h, its) if with_its else cc.graph_to_rsmi(g, h)
        finally:
            cc.GraphToMol = orig
        if len(rec) != 2:
            return ["unexpected-call-pattern", len(rec)]
        out += [E.obs_mgraph(rec[0]), E.obs_mgraph(rec[1])]
    return out


def coq_g2r(rsmi):
    a, b = rsmi.split(">>")
    ma, mb = sanitized_mol(a), sanitized_mol(b)
    if ma is None or mb is None:
        return None
    return "run_g2r %s %s" % (coq_rmol(read_rmol(ma)), coq_rmol(read_rmol(mb)))


def obs_g2m(gjson, ibo, uhc):
    from synkit.IO.graph_to_mol import GraphToMol
    try:
        mol = GraphToMol().graph_to_mol(E.to_nx(gjson), ibo, False, uhc)          # positional: ignore_bond_order, sanitize, use_h_count
    except Exception:
        return []
    ats = []
    for a in mol.GetAtoms():
        ats.append([E.elem_code(a.GetSymbol()), int(a.GetFormalCharge()), int(a.GetAtomMapNum()),
                    int(a.GetNumExplicitHs()) if a.GetNoImplicit() else -1])
    bs = []
    for b in mol.GetBonds():
        i, j, c = b.GetBeginAtomIdx(), b.GetEndAtomIdx(), int(b.GetBondType())
        bs += [[ats[i], ats[j], c], [ats[j], ats[i], c]]
    return [[S(ats), S(bs)]]


def coq_g2m(gjson, ibo, uhc):
    return "run_g2m %s %s %s" % (E.cb(ibo), E.cb(uhc), E.coq_mgraph(gjson))


# ------------------------------------------------------------------ rsmi_to_its(rsmi, node_attrs=<caller's list>)

def obs_pipeline_na(rsmi, node_attrs):
    import synkit.IO.chem_converter as cc
    from synkit.Graph.ITS.its_decompose import its_decompose
    I = cc.rsmi_to_its(rsmi, node_attrs=list(node_attrs))
    g, h = its_decompose(I)
    rec = []
    orig = cc.GraphToMol

    class Rec(orig):
        def graph_to_mol(self, graph, *a, **k):
            rec.append(graph.copy())
            return orig.graph_to_mol(self, graph, *a, **k)
    cc.GraphToMol = Rec
    try:
        cc.its_to_rsmi(I)
    finally:
        cc.GraphToMol = orig
    if len(rec) != 2:
        return ["unexpected-call-pattern", len(rec)]
    return [E.obs_its(I), E.obs_mgraph(g), E.obs_mgraph(h), E.obs_mgraph(rec[0]), E.obs_mgraph(rec[1])]


def coq_pipeline_na(rsmi, node_attrs):
    if "atom_map" not in node_attrs or any(k not in NODE_ATTRS for k in node_attrs):
        return None
    a, b = rsmi.split(">>")
    ma, mb = sanitized_mol(a), sanitized_mol(b)
    if ma is None or mb is None:
        return None
    sel = " ".join(E.cb(k in node_attrs) for k in NODE_ATTRS)
    return "run_str_sel (AS %s) %s %s" % (sel, coq_rmol(read_rmol(ma)), coq_rmol(read_rmol(mb)))
