"""C01: option paths of the anchored entry points that have no Gallina counterpart of their own (ROUND3_BRIEF item A).
Each check runs an option path and the reference path of the SAME code on equivalent inputs and reports 1 when the two
agree on everything the property talks about; the model side is the constant list of ones, so a flipped entry is a
correspondence break, and the oracle names the option that went wrong (clause `api-option`).

case = {"kind": "api-misc", "rsmi": r}   (a balanced, fully mapped reaction)
"""
from . import c01_enc as E
from . import c01_str as T

CHECKS = ("decompose-custom-keys", "profile-full", "with-topology", "graph-to-mol-custom-names",
          "implicit-hydrogen-reindex", "construct-extended-node-attrs", "construct-instance-vs-class", "sanitize-false-bonds",
          "absent-attribute-is-default")


def _same_graph(A, B, keys=("element", "aromatic", "hcount", "charge", "atom_map")):
    if set(A.nodes) != set(B.nodes):
        return False
    for n in A.nodes:
        if any(A.nodes[n].get(k) != B.nodes[n].get(k) for k in keys):
            return False
    ea = {frozenset(e): A.edges[e].get("order") for e in A.edges}
    eb = {frozenset(e): B.edges[e].get("order") for e in B.edges}
    return ea == eb


def run_checks(rsmi):
    """-> list of (name, ok, detail)"""
    import networkx as nx
    import synkit.IO.chem_converter as cc
    from synkit.Graph.ITS.its_construction import ITSConstruction
    from synkit.Graph.ITS.its_decompose import its_decompose
    from synkit.IO.mol_to_graph import MolToGraph
    from synkit.IO.graph_to_mol import GraphToMol
    from synkit.Graph.Hyrogen._misc import implicit_hydrogen
    out = []
    G, H = cc.rsmi_to_graph(rsmi)
    I = ITSConstruction.ITSGraph(G, H)
    g0, h0 = its_decompose(I)

    # its_decompose with other attribute names
    I2 = nx.Graph()
    for n, d in I.nodes(data=True):
        d2 = {k: v for k, v in d.items() if k != "typesGH"}
        d2["tg"] = d["typesGH"]
        I2.add_node(n, **d2)
    for u, v, d in I.edges(data=True):
        I2.add_edge(u, v, od=d["order"], standard_order=d["standard_order"])
    g1, h1 = its_decompose(I2, "tg", "od")
    g1b, h1b = its_decompose(I2, nodes_share="tg", edges_share="od")
    out.append(("decompose-custom-keys", _same_graph(g0, g1) and _same_graph(h0, h1) and _same_graph(g0, g1b) and _same_graph(h0, h1b), ""))

    # (its_to_rsmi(clean_wildcards=True) is lossy by design: clean_wc keeps only the longest product fragment - not checked)

    # MolToGraph profiles / topology annotation: the six attributes are the same
    ok_full, ok_topo = True, True
    for side in rsmi.split(">>"):
        mol = T.sanitized_mol(side)
        if mol is None:
            continue
        ref = MolToGraph(node_attrs=T.NODE_ATTRS, edge_attrs=T.EDGE_ATTRS).transform(mol, True, True)
        full = MolToGraph(attr_profile="full").transform(T.sanitized_mol(side), drop_non_aam=True, use_index_as_atom_map=True)
        topo = MolToGraph(with_topology=True).transform(T.sanitized_mol(side), drop_non_aam=True, use_index_as_atom_map=True)
        ok_full = ok_full and _same_graph(ref, full, T.NODE_ATTRS)
        ok_topo = ok_topo and _same_graph(ref, topo, T.NODE_ATTRS)
    out.append(("profile-full", ok_full, ""))
    out.append(("with-topology", ok_topo, ""))

    # GraphToMol with other attribute names
    X = nx.Graph()
    for n, d in g0.nodes(data=True):
        X.add_node(n, el=d["element"], q=d["charge"], am=d["atom_map"], hcount=d["hcount"], atom_map=d["atom_map"])
    for u, v, d in g0.edges(data=True):
        X.add_edge(u, v, o=d["order"])
    try:
        m1 = GraphToMol({"element": "el", "charge": "q", "atom_map": "am"}, {"order": "o"}).graph_to_mol(X, sanitize=False, use_h_count=True)
        m0 = GraphToMol().graph_to_mol(g0, sanitize=False, use_h_count=True)
        ok = T.obs_wmol(m1) == T.obs_wmol(m0) or str(T.obs_wmol(m1)) == str(T.obs_wmol(m0))
    except Exception as e:
        ok = False
    out.append(("graph-to-mol-custom-names", bool(ok), ""))

    # implicit_hydrogen(reindex=True): the same graph with nodes renumbered 1..n in node order and atom_map = new id
    hs = [n for n, d in g0.nodes(data=True) if d["element"] == "H"]
    pres = set(hs[::2])
    r0 = implicit_hydrogen(g0.copy(), set(pres), False)
    r1 = implicit_hydrogen(g0.copy(), set(pres), True)
    mp = {n: i + 1 for i, n in enumerate(r0.nodes())}
    ok = set(r1.nodes) == set(mp.values())
    if ok:
        for n, d in r0.nodes(data=True):
            e = r1.nodes[mp[n]]
            if any(e.get(k) != d.get(k) for k in ("element", "aromatic", "hcount", "charge")) or e.get("atom_map") != mp[n]:
                ok = False
        ok = ok and {frozenset((mp[u], mp[v])): d["order"] for u, v, d in r0.edges(data=True)} == \
            {frozenset(e): r1.edges[e]["order"] for e in r1.edges}
    out.append(("implicit-hydrogen-reindex", bool(ok), ""))

    # construct with an extended / permuted-tail node_attrs list: its_decompose reads the first four entries
    ok = True
    for na in (["element", "aromatic", "hcount", "charge", "neighbors", "atom_map"], ["element", "aromatic", "hcount", "charge"],
               ["element", "aromatic", "hcount", "charge", "atom_map", "neighbors"]):
        J = ITSConstruction.construct(G, H, balance_its=False, store=False, node_attrs=list(na), edge_attrs=["order"])
        g2, h2 = its_decompose(J)
        ok = ok and _same_graph(g0, g2) and _same_graph(h0, h2) and all(len(J.nodes[n]["typesGH"][0]) == len(na) for n in J.nodes)
    out.append(("construct-extended-node-attrs", bool(ok), ""))

    # static call vs instance call vs keyword call of the wrapper
    A = ITSConstruction.ITSGraph(G, H)
    B = ITSConstruction().ITSGraph(G, H, False, None, False, False)
    C = ITSConstruction().ITSGraph(G=G, H=H, store=False, balance_its=False, attributes_defaults=None, ignore_aromaticity=False)
    ok = str(E.obs_its(A)) == str(E.obs_its(B)) == str(E.obs_its(C))
    out.append(("construct-instance-vs-class", bool(ok), ""))

    # sanitize=False: same atoms and bond skeleton (aromaticity perception may differ, orders of non-aromatic bonds may not)
    Gs, Hs = cc.rsmi_to_graph(rsmi, True, False, True)
    ok = True
    for X0, X1 in ((G, Gs), (H, Hs)):
        if X1 is None:
            continue                                  # RDKit needs the property cache for unsanitised molecules: None is accepted
        ok = ok and set(X0.nodes) == set(X1.nodes) and {frozenset(e) for e in X0.edges} == {frozenset(e) for e in X1.edges} \
            and all(X0.nodes[n]["element"] == X1.nodes[n]["element"] and X0.nodes[n]["charge"] == X1.nodes[n]["charge"] for n in X0.nodes)
    out.append(("sanitize-false-bonds", bool(ok), ""))

    # an attribute absent on some atoms of one side only = the documented default value written out
    Ga, Gd = G.copy(), G.copy()
    for k, n in enumerate(sorted(Ga.nodes)):
        key = ("hcount", "charge", "aromatic", "neighbors")[k % 4]
        if k % 3 == 0:
            del Ga.nodes[n][key]
            Gd.nodes[n][key] = {"hcount": 0, "charge": 0, "aromatic": False, "neighbors": ["", ""]}[key]
    ok = True
    for kw in (dict(), dict(ignore_aromaticity=True, balance_its=True), dict(store=True)):
        A1, A2 = ITSConstruction.ITSGraph(Ga, H, **kw), ITSConstruction.ITSGraph(Gd, H, **kw)
        ok = ok and all(A1.nodes[n]["typesGH"] == A2.nodes[n]["typesGH"] for n in A1.nodes) and set(A1.nodes) == set(A2.nodes) \
            and {frozenset(e): (A1.edges[e]["order"], A1.edges[e]["standard_order"]) for e in A1.edges} == \
                {frozenset(e): (A2.edges[e]["order"], A2.edges[e]["standard_order"]) for e in A2.edges}
        d1, d2 = its_decompose(A1), its_decompose(A2)
        ok = ok and _same_graph(d1[0], d2[0]) and _same_graph(d1[1], d2[1])
    out.append(("absent-attribute-is-default", bool(ok), ""))
    return out


def obs(case):
    from . import c01_hist
    c01_hist.fresh_modules()
    return [bool(ok) for _, ok, _ in run_checks(case["rsmi"])]


def coq(case):
    return "(L [%s])" % "; ".join("I 1" for _ in CHECKS)


def oracle(case):
    fails = []
    for name, ok, detail in run_checks(case["rsmi"]):
        if not ok:
            fails.append(dict(clause="api-option", detail="option path %s disagrees with the reference path of the same code on %r %s" % (name, case["rsmi"], detail)))
    return fails[:3]


# ------------------------------------------------------------------ construct(node_attrs=L) + positional its_decompose (model/C01_Attrs.v)
# case = {"kind": "attrs", "G": json, "H": json, "attrs": [names]}

KEYS = {"element": "KEl", "aromatic": "KAr", "hcount": "KHc", "charge": "KCh", "neighbors": "KNb", "atom_map": "KAm"}


def _aval(v):
    if v is None:
        return [4]
    if isinstance(v, bool):
        return [1, v]
    if isinstance(v, str):
        return [0, E.elem_code(v)]
    if isinstance(v, (list, tuple)):
        return [3, [E.elem_code(x) for x in v]]
    return [2, E._int(v)]


def obs_attrs(case):
    from ..tok import S
    from synkit.Graph.ITS.its_construction import ITSConstruction
    from synkit.Graph.ITS.its_decompose import its_decompose
    G, H = E.to_nx(case["G"]), E.to_nx(case["H"])
    J = ITSConstruction.construct(G, H, balance_its=False, store=False, node_attrs=list(case["attrs"]))
    ns = [[n, [_aval(x) for x in d["typesGH"][0]], [_aval(x) for x in d["typesGH"][1]]] for n, d in J.nodes(data=True)]
    es = []
    for u, v, d in J.edges(data=True):
        es.append([min(u, v), max(u, v), E.half(d["order"][0]), E.half(d["order"][1]), E.half(d["standard_order"])])
    try:
        g, h = its_decompose(J)
        dec = []
        for X in (g, h):
            xs = [[n, _aval(d["element"]), _aval(d["aromatic"]), _aval(d["hcount"]), _aval(d["charge"])] + ([] if d.get("atom_map") == n else ["atom_map!=id"])
                  for n, d in X.nodes(data=True)]
            dec.append([S(xs), S([[min(u, v), max(u, v), E.half(d["order"])] for u, v, d in X.edges(data=True)])])
    except IndexError:
        dec = []
    return [S(ns), S(es), dec]


def coq_attrs(case):
    ks = "; ".join(KEYS.get(a, "KOther") for a in case["attrs"])
    return "run_attrs [%s] %s %s" % (ks, E.coq_mgraph(case["G"]), E.coq_mgraph(case["H"]))


def oracle_attrs(case, graph_eq, balanced_pair):
    """the property's round trip is demanded when the caller's list starts with the legacy order (its_decompose's convention)"""
    from synkit.Graph.ITS.its_construction import ITSConstruction
    from synkit.Graph.ITS.its_decompose import its_decompose
    if case["attrs"][:4] != ["element", "aromatic", "hcount", "charge"]:
        return []
    G, H = E.to_nx(case["G"]), E.to_nx(case["H"])
    if not balanced_pair(G, H):
        return []
    J = ITSConstruction.construct(E.to_nx(case["G"]), E.to_nx(case["H"]), balance_its=False, store=False, node_attrs=list(case["attrs"]))
    g, h = its_decompose(J)
    fails = []
    graph_eq("reactant", G, g, fails)
    graph_eq("product", H, h, fails)
    for f in fails:
        f["clause"] = "attrs-" + f["clause"]
        f["detail"] = "node_attrs=%r: %s" % (case["attrs"], f["detail"])
    return fails[:2]


def gen_attrs(pairs, rng, count):
    six = ["element", "aromatic", "hcount", "charge", "neighbors", "atom_map"]
    cases = []
    for k in range(count):
        p = pairs[k % len(pairs)]
        z = rng.random()
        if z < 0.3:
            at = six[:4] + rng.sample(six[4:] + ["radical"], rng.randint(0, 3))
        elif z < 0.45:
            at = sorted(six)
        elif z < 0.75:
            at = rng.sample(six, rng.randint(4, 6))
        elif z < 0.9:
            at = rng.sample(six + ["radical"], rng.randint(0, 3))            # shorter than four: its_decompose raises IndexError
        else:
            at = rng.sample(six, 5) + [rng.choice(six)]
        cases.append(dict(kind="attrs", G=p["G"], H=p["H"], attrs=at))
    return cases


# ------------------------------------------------------------------ clean_wc / its_to_rsmi(clean_wildcards=True)  (model/C01_CleanWc.v)
# case = {"kind": "cwc", "react": str, "prod": str, "via_its": rsmi|None}

def obs_cwc(case):
    from synkit.Chem.Reaction.radical_wildcard import clean_wc
    out = clean_wc(case["react"] + ">>" + case["prod"])
    parts = out.split(">>")
    if len(parts) != 2:
        return ["not-a-reaction", out]
    res = [parts[0], parts[1]]
    if case.get("via_its"):
        # the option of its_to_rsmi is clean_wc applied to the default output
        import synkit.IO.chem_converter as cc
        I = cc.rsmi_to_its(case["via_its"])
        a = cc.its_to_rsmi(I)
        b = cc.its_to_rsmi(I, clean_wildcards=True)
        if a is None or b != clean_wc(a):
            res.append("its_to_rsmi(clean_wildcards=True) is not clean_wc(its_to_rsmi(...))")
    return res


def coq_cwc(case):
    from ..coqrun import cstr
    if any(not (32 <= ord(c) < 127) for c in case["react"] + case["prod"]):
        return None
    return "run_cwc %s %s" % (cstr(case["react"]), cstr(case["prod"]))


def gen_cwc(rsmis, rng, count):
    cases = []
    stars = ["[*:99]", "*", "[*:98]C", "C[*:97]CCCCCCCCCCCCCCCCCCCCCCCCCCCCCCCCCC", "[*]"]
    for k in range(count):
        r = rsmis[k % len(rsmis)]
        if r.count(">>") != 1:
            continue
        a, b = r.split(">>")
        fr = b.split(".")
        z = rng.random()
        if z < 0.35:
            fr.insert(rng.randrange(len(fr) + 1), rng.choice(stars))
        elif z < 0.5:
            fr = [f + rng.choice(stars) if rng.random() < 0.7 else f for f in fr]
        elif z < 0.6:
            fr = [rng.choice(stars) for _ in fr]
        elif z < 0.7:
            fr = fr + [fr[0]]                      # two fragments of equal length: the first one wins
        elif z < 0.75:
            fr = [""] + fr
        rng.shuffle(fr)
        cases.append(dict(kind="cwc", react=a, prod=".".join(fr), via_its=(r if k % 7 == 0 else None)))
    cases += [dict(kind="cwc", react="", prod=""), dict(kind="cwc", react="A", prod="*"), dict(kind="cwc", react="A.B", prod="C.D"),
              dict(kind="cwc", react="A", prod="CC.OO.N"), dict(kind="cwc", react="A", prod="..")]
    return cases
