"""Shared graph generators / encoders for the graph-side properties.

JSON graph format (insertion order is meaningful, it is the networkx order):
    {"nodes": [[id, {attr: value, ...}], ...], "edges": [[u, v, {attr: value, ...}], ...]}
Bond orders are kept as floats/ints in JSON as SynKit uses them (1, 1.5, 2, ...);
`half(order)` converts to the model's half-units (1.0 -> 2, 1.5 -> 3).
"""
import itertools
import json
import os

ELEMENTS = ["C", "O", "N", "H", "Cl", "Br", "S", "B"]


def half(order):
    v = order * 2
    if v != int(v):
        raise ValueError("order %r is not a half-integer" % order)
    return int(v)


# ------------------------------------------------------------------ conversion

def to_nx(g, directed=False):
    import networkx as nx
    G = nx.DiGraph() if directed else nx.Graph()
    for n, a in g["nodes"]:
        G.add_node(n, **a)
    for u, v, a in g["edges"]:
        G.add_edge(u, v, **a)
    return G


def from_nx(G, node_keys=None, edge_keys=None):
    def sel(d, keys):
        return {k: _js(v) for k, v in d.items() if keys is None or k in keys}
    return {"nodes": [[n, sel(d, node_keys)] for n, d in G.nodes(data=True)],
            "edges": [[u, v, sel(d, edge_keys)] for u, v, d in G.edges(data=True)]}


def _js(v):
    if isinstance(v, tuple):
        return [_js(x) for x in v]
    if isinstance(v, list):
        return [_js(x) for x in v]
    if isinstance(v, float) and v == int(v):
        return int(v)
    return v


def relabel(g, mapping):
    """mapping: dict old id -> new id (injective)."""
    return {"nodes": [[mapping[n], dict(a)] for n, a in g["nodes"]],
            "edges": [[mapping[u], mapping[v], dict(a)] for u, v, a in g["edges"]]}


def shuffle_insertion(g, rng):
    ns = list(g["nodes"])
    es = [([u, v, a] if rng.random() < 0.5 else [v, u, a]) for u, v, a in g["edges"]]
    rng.shuffle(ns)
    rng.shuffle(es)
    return {"nodes": ns, "edges": es}


def random_relabel(g, rng, lo=1, hi=None):
    ids = [n for n, _ in g["nodes"]]
    hi = hi or (len(ids) + 5)
    new = rng.sample(range(lo, hi + 1), len(ids))
    return relabel(g, dict(zip(ids, new)))


# ------------------------------------------------------------------ exhaustive small scopes

def _canon_key(nl, em, n):
    best = None
    for p in itertools.permutations(range(n)):
        k = (tuple(nl[p[i]] for i in range(n)),
             tuple(em[min(p[i], p[j]) * n + max(p[i], p[j])] for i in range(n) for j in range(i + 1, n)))
        if best is None or k < best:
            best = k
    return best


def iso_classes(n, node_labels, edge_labels):
    """All graphs on n nodes up to isomorphism.  node_labels: list of attr dicts;
    edge_labels: list of attr dicts (an absent edge is always an option).
    Returns a list of JSON graphs with node ids 1..n.  Cached on disk under .work/cache."""
    key = json.dumps([n, node_labels, edge_labels], sort_keys=True)
    import hashlib
    h = hashlib.sha1(key.encode()).hexdigest()[:16]
    cdir = os.path.join(os.path.dirname(os.path.dirname(os.path.dirname(os.path.abspath(__file__)))), ".work", "cache")
    os.makedirs(cdir, exist_ok=True)
    cpath = os.path.join(cdir, "iso_%s.json" % h)
    if os.path.exists(cpath):
        try:
            return json.load(open(cpath))
        except Exception:
            pass
    pairs = [(i, j) for i in range(n) for j in range(i + 1, n)]
    seen = {}
    nL, nE = len(node_labels), len(edge_labels) + 1
    for nl in itertools.combinations_with_replacement(range(nL), n):   # sorted node labels: w.l.o.g.
        for ev in itertools.product(range(nE), repeat=len(pairs)):
            em = [0] * (n * n)
            for (i, j), e in zip(pairs, ev):
                em[i * n + j] = e
            k = _canon_key(nl, em, n)
            if k not in seen:
                seen[k] = (nl, ev)
    out = []
    for nl, ev in seen.values():
        g = {"nodes": [[i + 1, dict(node_labels[nl[i]])] for i in range(n)], "edges": []}
        for (i, j), e in zip(pairs, ev):
            if e:
                g["edges"].append([i + 1, j + 1, dict(edge_labels[e - 1])])
        out.append(g)
    tmp = cpath + ".%d" % os.getpid()
    json.dump(out, open(tmp, "w"))
    os.replace(tmp, cpath)
    return out


MOL_NODE_LABELS = [{"element": e, "charge": 0, "hcount": h} for e in ("C", "O") for h in (0, 1)]
MOL_NODE_LABELS_NOH = [{"element": e, "charge": 0} for e in ("C", "O")]
MOL_EDGE_LABELS = [{"order": 1}, {"order": 2}]


# ------------------------------------------------------------------ random molecule-like graphs

def random_graph(rng, n, p_edge=0.35, elements=("C", "O", "N"), orders=(1, 1, 2, 1.5), charges=(0, 0, 0, 1, -1),
                 hcounts=(0, 0, 1, 2), connected=False, extra_node=None, extra_edge=None, first_id=1):
    ids = list(range(first_id, first_id + n))
    nodes = []
    for i in ids:
        a = {"element": rng.choice(elements), "charge": rng.choice(charges), "hcount": rng.choice(hcounts),
             "aromatic": False, "atom_map": i}
        if extra_node:
            a.update(extra_node(rng, i))
        nodes.append([i, a])
    edges = []
    have = set()
    if connected:
        for k in range(1, n):
            j = rng.randrange(k)
            have.add((ids[j], ids[k]))
    for i in range(n):
        for j in range(i + 1, n):
            if rng.random() < p_edge:
                have.add((ids[i], ids[j]))
    for (u, v) in sorted(have):
        a = {"order": rng.choice(orders)}
        if extra_edge:
            a.update(extra_edge(rng, u, v))
        edges.append([u, v, a])
    return {"nodes": nodes, "edges": edges}


def cycle(n, element="C", order=1):
    return {"nodes": [[i, {"element": element, "charge": 0, "hcount": 0, "aromatic": False, "atom_map": i}] for i in range(1, n + 1)],
            "edges": [[i, i % n + 1, {"order": order}] for i in range(1, n + 1)]}


def complete_bipartite(m, n, element="C", order=1):
    nodes = [[i, {"element": element, "charge": 0, "hcount": 0, "aromatic": False, "atom_map": i}] for i in range(1, m + n + 1)]
    return {"nodes": nodes, "edges": [[i, m + j, {"order": order}] for i in range(1, m + 1) for j in range(1, n + 1)]}


def cube():
    nodes = [[i + 1, {"element": "C", "charge": 0, "hcount": 0, "aromatic": False, "atom_map": i + 1}] for i in range(8)]
    edges = [[i + 1, (i ^ (1 << b)) + 1, {"order": 1}] for i in range(8) for b in range(3) if i < (i ^ (1 << b))]
    return {"nodes": nodes, "edges": edges}


def petersen():
    nodes = [[i + 1, {"element": "C", "charge": 0, "hcount": 0, "aromatic": False, "atom_map": i + 1}] for i in range(10)]
    e = [(i, (i + 1) % 5) for i in range(5)] + [(i, i + 5) for i in range(5)] + [(5 + i, 5 + (i + 2) % 5) for i in range(5)]
    return {"nodes": nodes, "edges": [[u + 1, v + 1, {"order": 1}] for u, v in e]}


# ------------------------------------------------------------------ interning + Gallina literals

class Intern:
    """Injective table value -> N code, printed into replays (values are sorted so
    that the code order is the Python sort order of the values where that matters)."""

    def __init__(self, values=()):
        self.t = {}
        for v in sorted(set(values), key=lambda x: (str(type(x)), x)):
            self.t[json.dumps(v, sort_keys=True)] = len(self.t)

    def __call__(self, v):
        k = json.dumps(v, sort_keys=True)
        if k not in self.t:
            self.t[k] = len(self.t)
        return self.t[k]


def coq_lgraph(g, node_attr, edge_attr):
    """Gallina literal of type lgraph A B; node_attr(id, attrs)->str and edge_attr(u, v, attrs)->str
    give the literals of the attribute values."""
    ns = "; ".join("(%d%%N, %s)" % (n, node_attr(n, a)) for n, a in g["nodes"])
    es = "; ".join("(%d%%N, %d%%N, %s)" % (u, v, edge_attr(u, v, a)) for u, v, a in g["edges"])
    return "(LG [%s] [%s])" % (ns, es)
