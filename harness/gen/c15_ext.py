"""C15 round 3 — the extended history language (model: coq/model/C15_Ext.v, `run2`).

case = {"kind": "h2-…", "n": <#networks>, "k": <#caller-held side objects>, "views": bool, "lite": bool, "skip": m, "ops": [op, ...]}
(the first m ops — a fixed preamble — are executed but their observations are not recorded; with "lite" a query records
only its answer, the state is recorded again at the next mutator)

old ops (embedded by OBase; a trailing style element selects how the call is written):
  ["add", i, lhs, rhs, rule, eid]                    lhs/rhs = [[label, count], ...]  (tuples)
  ["rmrxn", i, e] | ["rmsp", i, x, prune(, style)]   style "default": prune_orphans not passed (prune must be True)
  ["merge", i, j, prefix(, style)]                   style "pos": merge(other, prefix) / "default": merge(other) (prefix True)
  ["copy", i, j(, style)]                            style "deep": copy.deepcopy(H)
  ["mol", i, x, label] | ["molmap", i, [[x, label], ...], strict, clear(, style)]   style "default": default kwargs omitted
new ops:
  ["addany", i, form, form, rule, eid, style]        form = ["map", [[key, count], ...]] | ["iter", [["p", label, count] | ["l", label], ...]]
                                                     | ["side", items] (a fresh RXNSide object); style "kw" | "pos"
  ["addfrom", i, j, e, rule, eid]                    add_rxn(Hj.edges[e].reactants, Hj.edges[e].products, …): the RXNSide OBJECTS
  ["poolnew", k, items(, "ctor")] | ["pooledit", k, x, c] | ["poolupdate", k, items] | ["addpool", i, kl, kr, rule, eid]
  ["mergebad", i]                                    merge(42): TypeError, nothing changes (outside the model: oracle only)
  ["mergeraw", i, [[eid|None, rule, items, items], ...], prefix]
  ["sideset", i, e, lhs?, x, c] | ["sideincr", i, e, lhs?, x, by]      caller edits through H.edges[e]
  ["q", i, name, args...]                            contains x | len | iter(style) | splist | getedge e | nbrs x
                                                     | paths src tgt hops maxp style | inc sparse style | getmol x
Labels (molecule identifiers) are arbitrary JSON values; model and observable carry json.dumps(label).
After every op the adapter records: error code, the value handed back (generated id / answer), the state of every
network (+ derived views when case["views"]) and the caller-held side objects.  Every container an answer returns is
then mutated by the caller (so that an answer served from shared/cached storage shows up later).
"""
import copy as _copy
import json

from ..coqrun import cstr, cZ, cnat, cbool, clist, cpair, copt
from ..tok import S

ERR = {None: 0, "KeyError": 1, "ValueError": 2}


def jl(v):
    return json.dumps(v, sort_keys=True)


# ------------------------------------------------------------------ helpers shared by adapter and oracle

def _mk_form(form):
    """Python argument for one side of add_rxn."""
    from synkit.CRN.Hypergraph.rxn import RXNSide
    t, items = form
    if t == "map":
        return {k: v for k, v in items}
    if t == "iter":
        return [(it[1], it[2]) if it[0] == "p" else it[1] for it in items]
    if t == "side":
        return RXNSide.from_any([(it[1], it[2]) if it[0] == "p" else it[1] for it in items])
    raise AssertionError(t)


def _form_items(form):
    """[('p', str, int) | ('l', str)] — what from_any sees, with str()/int() applied (encoder side)."""
    t, items = form
    if t == "map":
        return [("p", str(k), int(v)) for k, v in {k: v for k, v in items}.items()]      # dict: the last duplicate key wins
    return [("p", str(it[1]), int(it[2])) if it[0] == "p" else ("l", str(it[1])) for it in items]


def _raw_items(items):
    return [("p", str(it[1]), int(it[2])) if it[0] == "p" else ("l", str(it[1])) for it in items]


class _RawEdge:
    pass


class _RawOther:
    def __init__(self, edges):
        self._e = edges

    def edge_list(self):
        return list(self._e)


def _mk_raw(es):
    out = []
    for eid, rule, l, r in es:
        e = _RawEdge()
        if eid is not None:
            e.id = eid
        e.rule = rule
        e.reactants = {k: v for _, k, v in l} if all(it[0] == "p" for it in l) and len({it[1] for it in l}) == len(l) \
            else [(it[1], it[2]) if it[0] == "p" else it[1] for it in l]
        e.products = [(it[1], it[2]) if it[0] == "p" else it[1] for it in r]
        out.append(e)
    return _RawOther(out)


def _edge_obs(k, e):
    return [k, e.rule, dict(e.reactants.to_dict()), dict(e.products.to_dict()), S(sorted(e.species())),
            bool(e.is_trivial()), e.arity()[0], e.arity()[1], e.arity(True)[0], e.arity(include_coeff=True)[1],
            S(list(e.reactants.expand())), S(list(e.products.expand()))]


def net_obs(H, views, lab=jl):
    sp_order, e_order, mp = H.incidence_matrix(sparse=True)
    base = [
        S(sorted(H.species)),
        S([[k, e.rule, dict(e.reactants.to_dict()), dict(e.products.to_dict())] for k, e in H.edges.items()]),
        list(H.edges.keys()),
        S([[k, S(sorted(v))] for k, v in H.species_to_in_edges.items()]),
        S([[k, S(sorted(v))] for k, v in H.species_to_out_edges.items()]),
        S([[k, lab(v)] for k, v in H.species_to_mol.items()]),
        S([[s, e, int(v)] for (s, e), v in mp.items()]),
    ]
    if not views:
        return [base]
    so, eo, mat = H.stoichiometric_matrix(sparse=False)
    dense = [[int(v) for v in row] for row in mat.tolist()] if mat.size else [[] for _ in so]
    vw = [len(H), H.species_list(), eo, dense, [e.id for e in H]]
    return [base, vw]


def _query(H, q):
    """(error name | None, answer observable).  Containers handed back are mutated afterwards."""
    name = q[0]
    if name == "contains":
        return None, [0, q[1] in H]
    if name == "len":
        return None, [0, len(H)]
    if name == "iter":
        es = list(H) if (len(q) < 2 or q[1] == "iter") else H.edge_list()
        ans = [0, [_edge_obs(e.id, e) for e in es]]
        es.clear()
        return None, ans
    if name == "splist":
        l = H.species_list()
        ans = [0, list(l)]
        l.append("~junk")
        l.reverse()
        return None, ans
    if name == "getedge":
        try:
            e = H.get_edge(q[1])
        except KeyError:
            return None, [1]
        ans = [0, _edge_obs(q[1], e)]
        e2 = e.copy()                       # HyperEdge.copy is deep: edits of the copy stay with the caller
        e2.reactants.incr("~junk", 3)
        e2.products.update({"~junk": 1})
        e2.rule = "~junk"
        return None, ans
    if name == "nbrs":
        try:
            N = H.neighbors(q[1])
        except KeyError:
            return None, [1]
        ans = [0, S(sorted(N))]
        N.add("~junk")
        return None, ans
    if name == "paths":
        _, a, b, hops, maxp, style = q
        try:
            ps = H.paths(a, b, hops, maxp) if style == "pos" else (
                H.paths(a, b, max_hops=hops, max_paths=maxp) if style == "kw" else H.paths(a, b))
        except KeyError:
            return None, [1]
        ans = [0, [list(p) for p in ps]]
        for p in ps:
            p.append("~junk")
        ps.append(["~junk"])
        return None, ans
    if name == "inc":
        _, sparse, style = q
        f = H.stoichiometric_matrix if style == "stoich" else H.incidence_matrix
        so, eo, m = f() if (style == "default" and sparse) else f(sparse=sparse)
        if sparse:
            ans = [0, list(so), list(eo), S([[s, e, int(v)] for (s, e), v in m.items()])]
            m.clear()
            m[("~junk", "~junk")] = 99
        else:
            ans = [0, list(so), list(eo), [[int(v) for v in row] for row in m.tolist()] if m.size else [[] for _ in so]]
            if m.size:
                m += 7
        so.append("~junk")
        eo.insert(0, "~junk")
        return None, ans
    if name == "getmol":
        try:
            return None, [0, jl(H.get_mol(q[1]))]
        except KeyError as ex:
            return None, [4 if "No molecule" in str(ex) else 1]
    raise AssertionError(name)


def apply2(nets, pool, op):
    """-> (error name | None, returned value observable)."""
    from synkit.CRN.Hypergraph.rxn import RXNSide
    k = op[0]
    try:
        if k == "add":
            _, i, l, r, rule, eid = op
            e = nets[i].add_rxn([tuple(x) for x in l], [tuple(x) for x in r], rule=(rule or None), edge_id=eid)
            return None, e.id
        if k == "addany":
            _, i, fl, fr, rule, eid, style = op
            a, b = _mk_form(fl), _mk_form(fr)
            a0, b0 = _copy.deepcopy(a), _copy.deepcopy(b)
            e = nets[i].add_rxn(a, b, rule, eid) if style == "pos" else nets[i].add_rxn(a, b, rule=rule, edge_id=eid)
            # the caller's argument objects: unchanged by the call, and edited afterwards by the caller
            if fl[0] != "side" and (a != a0 or b != b0):
                raise AssertionError("add_rxn changed its arguments")
            for obj in (a, b):
                if isinstance(obj, dict):
                    obj["~junk"] = 5
                elif isinstance(obj, list):
                    obj.append(("~junk", 5))
                else:
                    obj.incr("~junk", 5)
            return None, e.id
        if k == "addfrom":
            _, i, j, eid_src, rule, eid = op
            src = nets[j].edges[eid_src]
            e = nets[i].add_rxn(src.reactants, src.products, rule=rule, edge_id=eid)
            return None, e.id
        if k == "poolnew":
            arg = [(it[1], it[2]) if it[0] == "p" else it[1] for it in op[2]]
            pool[op[1]] = RXNSide(arg) if (len(op) > 3 and op[3] == "ctor") else RXNSide.from_any(arg)
            return None, None
        if k == "poolupdate":
            arg = [(it[1], it[2]) if it[0] == "p" else it[1] for it in op[2]]
            pool[op[1]].update({a: b for a, b in arg} if all(isinstance(a, tuple) for a in arg) and len({a[0] for a in arg}) == len(arg) else arg)
            return None, None
        if k == "mergebad":
            try:
                nets[op[1]].merge(42)
            except TypeError:
                return None, "TypeError"
            return None, "no-error"
        if k == "pooledit":
            pool[op[1]][op[2]] = op[3]
            return None, None
        if k == "addpool":
            _, i, kl, kr, rule, eid = op
            e = nets[i].add_rxn(pool[kl], pool[kr], rule=rule, edge_id=eid)
            return None, e.id
        if k == "mergeraw":
            nets[op[1]].merge(_mk_raw(op[2]), prefix_edges=op[3])
            return None, None
        if k == "sideset":
            _, i, e, lhs, x, c = op
            ed = nets[i].edges[e]
            sd = ed.reactants if lhs else ed.products
            if x in sd and c > 0:                      # the caller only changes coefficients (key set kept)
                sd[x] = c
            return None, None
        if k == "sideincr":
            _, i, e, lhs, x, by = op
            ed = nets[i].get_edge(e)
            sd = ed.reactants if lhs else ed.products
            if x in sd and sd[x] + by > 0:
                sd.incr(x, by)
            return None, None
        if k == "q":
            return _query(nets[op[1]], op[2:])
        style = None
        if k == "rmrxn":
            nets[op[1]].remove_rxn(op[2])
        elif k == "rmsp":
            style = op[4] if len(op) > 4 else None
            if style == "default":
                assert op[3] is True
                nets[op[1]].remove_species(op[2])
            else:
                nets[op[1]].remove_species(op[2], prune_orphans=op[3])
        elif k == "merge":
            style = op[4] if len(op) > 4 else None
            if style == "pos":
                nets[op[1]].merge(nets[op[2]], op[3])
            elif style == "default":
                assert op[3] is True
                nets[op[1]].merge(nets[op[2]])
            else:
                nets[op[1]].merge(nets[op[2]], prefix_edges=op[3])
        elif k == "copy":
            style = op[3] if len(op) > 3 else None
            nets[op[2]] = _copy.deepcopy(nets[op[1]]) if style == "deep" else nets[op[1]].copy()
        elif k == "mol":
            nets[op[1]].assign_mol(op[2], op[3])
        elif k == "molmap":
            style = op[5] if len(op) > 5 else None
            mp = {a: b for a, b in op[2]}
            if style == "default":
                kw = {}
                if not op[3]:
                    kw["strict"] = False
                if op[4]:
                    kw["clear_existing"] = True
                nets[op[1]].set_mol_map(mp, **kw)
            else:
                nets[op[1]].set_mol_map(mp, strict=op[3], clear_existing=op[4])
            mp["~junk"] = "junk"          # the caller's mapping is the caller's
        else:
            raise AssertionError(k)
        return None, None
    except KeyError:
        return "KeyError", None
    except ValueError:
        return "ValueError", None


def impl2(case):
    from synkit.CRN.Hypergraph.hypergraph import CRNHyperGraph
    from synkit.CRN.Hypergraph.rxn import RXNSide
    nets = [CRNHyperGraph() for _ in range(case["n"])]
    pool = [RXNSide() for _ in range(case.get("k", 0))]
    out = []
    skip = case.get("skip", 0)
    for t, op in enumerate(case["ops"]):
        er, ans = apply2(nets, pool, op)
        if t >= skip:
            if case.get("lite") and op[0] == "q":
                out.append([ERR[er], ans])
            else:
                out.append([ERR[er], ans, [net_obs(H, case.get("views", False)) for H in nets], [dict(p.to_dict()) for p in pool]])
    return out


# ------------------------------------------------------------------ model encoder

def _items(items):
    return clist(["IPair %s %s" % (cstr(it[1]), cZ(it[2])) if it[0] == "p" else "ILabel %s" % cstr(it[1]) for it in items])


def _pairs(l):
    return clist([cpair(cstr(s), cZ(c)) for s, c in l])


def _ostr(e):
    return copt(None if e is None else cstr(e))


def _ascii(s):
    return isinstance(s, str) and all(32 <= ord(c) < 127 for c in s)


def _query_term(q):
    n = q[0]
    if n == "contains":
        return "QContains %s" % cstr(q[1])
    if n == "len":
        return "QLen"
    if n == "iter":
        return "QIter"
    if n == "splist":
        return "QSpeciesList"
    if n == "getedge":
        return "QGetEdge %s" % cstr(q[1])
    if n == "nbrs":
        return "QNeighbors %s" % cstr(q[1])
    if n == "paths":
        _, a, b, hops, maxp, style = q
        if style == "default":
            hops, maxp = 4, None
        return "QPaths %s %s %s %s" % (cstr(a), cstr(b), cZ(hops), copt(None if maxp is None else cZ(maxp)))
    if n == "inc":
        return "QIncidence %s" % cbool(q[1])
    if n == "getmol":
        return "QGetMol %s" % cstr(q[1])
    raise AssertionError(n)


def op_term(op):
    k = op[0]
    if k == "add":
        _, i, l, r, rule, eid = op
        return "OBase (OAdd %s %s %s %s %s)" % (cnat(i), _pairs(l), _pairs(r), cstr(rule or ""), _ostr(eid))
    if k == "rmrxn":
        return "OBase (ORemoveRxn %s %s)" % (cnat(op[1]), cstr(op[2]))
    if k == "rmsp":
        return "OBase (ORemoveSpecies %s %s %s)" % (cnat(op[1]), cstr(op[2]), cbool(op[3]))
    if k == "merge":
        return "OBase (OMerge %s %s %s)" % (cnat(op[1]), cnat(op[2]), cbool(op[3]))
    if k == "copy":
        return "OBase (OCopy %s %s)" % (cnat(op[1]), cnat(op[2]))
    if k == "mol":
        return "OBase (OAssignMol %s %s %s)" % (cnat(op[1]), cstr(op[2]), cstr(jl(op[3])))
    if k == "molmap":
        return "OBase (OSetMolMap %s %s %s %s)" % (cnat(op[1]), clist([cpair(cstr(a), cstr(jl(b))) for a, b in op[2]]),
                                                  cbool(op[3]), cbool(op[4]))
    if k == "addany":
        _, i, fl, fr, rule, eid, style = op
        return "OAddItems %s %s %s %s %s" % (cnat(i), _items(_form_items(fl)), _items(_form_items(fr)),
                                             cstr(rule or ""), _ostr(eid))
    if k == "addfrom":
        _, i, j, e, rule, eid = op
        return "OAddFrom %s %s %s %s %s" % (cnat(i), cnat(j), cstr(e), cstr(rule or ""), _ostr(eid))
    if k == "poolnew":
        return "OPoolNew %s %s" % (cnat(op[1]), _items(_raw_items(op[2])))
    if k == "pooledit":
        return "OPoolEdit %s %s %s" % (cnat(op[1]), cstr(op[2]), cZ(op[3]))
    if k == "poolupdate":
        return "OPoolUpdate %s %s" % (cnat(op[1]), _items(_raw_items(op[2])))
    if k == "addpool":
        _, i, kl, kr, rule, eid = op
        return "OAddPool %s %s %s %s %s" % (cnat(i), cnat(kl), cnat(kr), cstr(rule or ""), _ostr(eid))
    if k == "mergeraw":
        es = ["(%s, %s, %s, %s)" % (_ostr(eid), cstr(rule), _items(_raw_items(l)), _items(_raw_items(r)))
              for eid, rule, l, r in op[2]]
        return "OMergeRaw %s %s %s" % (cnat(op[1]), clist(es), cbool(op[3]))
    if k == "sideset":
        _, i, e, lhs, x, c = op
        return "OSideSet %s %s %s %s %s" % (cnat(i), cstr(e), cbool(lhs), cstr(x), cZ(c))
    if k == "sideincr":
        _, i, e, lhs, x, by = op
        return "OSideIncr %s %s %s %s %s" % (cnat(i), cstr(e), cbool(lhs), cstr(x), cZ(by))
    if k == "q":
        return "OQuery %s (%s)" % (cnat(op[1]), _query_term(op[2:]))
    raise AssertionError(k)


def in_model_domain(case):
    """strings must be printable ASCII; mapping keys of set_mol_map must be strings; rule None == ''."""
    def ok(v):
        if isinstance(v, str):
            return _ascii(v)
        if isinstance(v, (list, tuple)):
            return all(ok(x) for x in v)
        return True
    for op in case["ops"]:
        if op[0] == "mergebad":
            return False
        if op[0] == "molmap" and not all(isinstance(a, str) for a, _ in op[2]):
            return False
        if op[0] in ("mol",) and not isinstance(op[2], str):
            return False
        if op[0] in ("mol", "molmap"):
            chk = [op[2]] if op[0] == "mol" else [a for a, _ in op[2]]
            if not all(_ascii(a) for a in chk):
                return False
            continue
        if not ok(op):
            return False
    return True


def coq_case2(case):
    if not in_model_domain(case):
        return None
    return "run2 %s %s %s %s %s %s" % (cbool(case.get("views", False)), cbool(case.get("lite", False)), cnat(case["n"]), cnat(case.get("k", 0)),
                                   cnat(case.get("skip", 0)), clist([op_term(o) for o in case["ops"]]))


# ------------------------------------------------------------------ property oracle (independent reference)

def _norm_items(items):
    d = {}
    for it in items:
        if it[0] == "p":
            if it[2] > 0:
                d[it[1]] = d.get(it[1], 0) + it[2]
        elif it[1] != "":
            d[it[1]] = d.get(it[1], 0) + 1
    return d


def _ref_side_str(d):
    if not d:
        return "∅"
    return " + ".join(s if d[s] == 1 else "%d%s" % (d[s], s) for s in sorted(d))


def _ref_repr(order, spec, species, mols):
    def key(e):
        pre = "".join(ch for ch in e if not ch.isdigit())
        dg = "".join(ch for ch in e if ch.isdigit())
        return (pre, int(dg) if dg else 0)
    lines = ["CRNHyperGraph:"]
    for e in sorted(order, key=key):
        rule, l, r = spec[e]
        lines.append("  %s: %s >> %s  (rule=%s)" % (e, _ref_side_str(l), _ref_side_str(r), rule))
    lines.append("Species: " + ", ".join(sorted(species)))
    if mols:
        lines.append("Species → mol: " + ", ".join("%s → %s" % (s, mols[s]) for s in sorted(mols)))
    return "\n".join(lines)


def _all_simple_paths(spec, src, tgt, hops):
    succ = {}
    for _, l, r in spec.values():
        for a in l:
            succ.setdefault(a, set()).update(r)
    out = []

    def go(path):
        if len(path) - 1 > hops:
            return
        if path[-1] == tgt:
            out.append(list(path))
            return
        for n in sorted(succ.get(path[-1], ())):
            if n not in path:
                path.append(n)
                go(path)
                path.pop()
    go([src])
    return sorted(out, key=lambda p: (len(p), p))


def _snapshot(H):
    return (sorted(H.species), [(k, e.id, e.rule, dict(e.reactants.to_dict()), dict(e.products.to_dict())) for k, e in H.edges.items()],
            sorted((k, sorted(v)) for k, v in H.species_to_in_edges.items()),
            sorted((k, sorted(v)) for k, v in H.species_to_out_edges.items()),
            sorted((k, jl(v)) for k, v in H.species_to_mol.items()), sorted(H._rule_counters.items()))


def check_net2(H, spec, order, kept, mols, where):
    """the property's invariant on the public attributes + every derived view, against the reference."""
    fails = []
    impl_edges = {k: (e.rule, dict(e.reactants.to_dict()), dict(e.products.to_dict())) for k, e in H.edges.items()}
    if impl_edges != spec:
        fails.append("stored reactions differ from the reference (%s): impl=%r ref=%r" % (where, impl_edges, spec))
    if list(H.edges) != order:
        fails.append("insertion order of reactions %r, reference %r (%s)" % (list(H.edges), order, where))
    for k, e in H.edges.items():
        if e.id != k:
            fails.append("edge stored under %r carries id %r" % (k, e.id))
        for sd in (e.reactants, e.products):
            if any((not isinstance(c, int)) or c <= 0 for c in sd.to_dict().values()):
                fails.append("side of %r is not a positive integer multiset: %r" % (k, sd.to_dict()))
    occurring = set()
    for (_, l, r) in impl_edges.values():
        occurring |= set(l) | set(r)
    sp = set(H.species)
    # `kept` = species the caller chose to keep when stripping them and that have not entered a reaction since
    for (_, l, r) in spec.values():
        kept -= set(l) | set(r)
    if not occurring <= sp:
        fails.append("species set misses occurring species %r" % sorted(occurring - sp))
    if not sp <= occurring | kept:
        fails.append("species set has non-occurring, non-kept species %r" % sorted(sp - occurring - kept))
    if not kept <= sp:
        fails.append("species the caller chose to keep (remove_species(..., prune_orphans=False)) are missing from the species set: %r"
                     % sorted(kept - sp))
    for x in sp | set(H.species_to_in_edges) | set(H.species_to_out_edges):
        prod = {k for k, (_, l, r) in impl_edges.items() if x in r}
        cons = {k for k, (_, l, r) in impl_edges.items() if x in l}
        if set(H.species_to_in_edges.get(x, ())) != prod:
            fails.append("in-index of %r is %r, producers are %r" % (x, sorted(H.species_to_in_edges.get(x, ())), sorted(prod)))
        if set(H.species_to_out_edges.get(x, ())) != cons:
            fails.append("out-index of %r is %r, consumers are %r" % (x, sorted(H.species_to_out_edges.get(x, ())), sorted(cons)))
    if not set(H.species_to_mol) <= sp:
        fails.append("molecule labels for absent species %r" % sorted(set(H.species_to_mol) - sp))
    got = {k: jl(v) for k, v in H.species_to_mol.items()}
    want = {k: jl(v) for k, v in mols.items() if k in sp}
    if got != want:
        fails.append("molecule labels %r, reference %r (%s)" % (got, want, where))
    so, eo, mp = H.incidence_matrix(sparse=True)
    ref = {}
    for k, (_, l, r) in impl_edges.items():
        for x in set(l) | set(r):
            ref[(x, k)] = r.get(x, 0) - l.get(x, 0)
    if {k: int(v) for k, v in mp.items()} != ref or so != sorted(sp) or eo != sorted(impl_edges):
        fails.append("sparse incidence differs from products - reactants (%s)" % where)
    so2, eo2, dense = H.incidence_matrix(sparse=False)
    if so2 != sorted(sp) or eo2 != sorted(impl_edges) or dense.shape != (len(so2), len(eo2)):
        fails.append("dense incidence: orders/shape (%s)" % where)
    else:
        for a, x in enumerate(so2):
            for b, k in enumerate(eo2):
                if int(dense[a, b]) != ref.get((x, k), 0):
                    fails.append("dense incidence entry (%s,%s) = %d, products - reactants = %d (%s)"
                                 % (x, k, int(dense[a, b]), ref.get((x, k), 0), where))
    if len(H) != len(spec) or [e.id for e in H] != order or [e.id for e in H.edge_list()] != order:
        fails.append("len / iteration differ from the stored reactions (%s)" % where)
    if H.species_list() != sorted(sp):
        fails.append("species_list (%s)" % where)
    for x in list(sp)[:6] + list(spec)[:6] + ["~nope"]:
        if (x in H) != (x in sp or x in spec):
            fails.append("__contains__(%r) (%s)" % (x, where))
    # __repr__ is a derived view; its FORMAT is not part of the property, so only format-independent facts are demanded:
    # it mentions every stored reaction id and every species, and it is a function of the state (an equal network
    # rebuilt by deep copy prints the same; today's format is additionally compared and reported under its own clause
    # only when the text also fails one of the format-independent facts)
    rp = repr(H)
    missing = [x for x in list(spec) + sorted(sp) if x not in rp]
    if missing or rp != repr(_copy.deepcopy(H)):
        fails.append("repr is not a view of the stored state (%s): missing %r, today's format would be %r, got %r"
                     % (where, missing, _ref_repr(order, spec, sp, H.species_to_mol), rp))
    return fails


def _judge_query(H, q, ans, spec, order, sp, mols, t):
    """reference answer of a query from the reference store."""
    f = []
    name = q[0]

    def bad(msg):
        f.append(dict(clause="query-" + name, detail="op %d %r: %s (answer %r)" % (t, q, msg, ans)))
    if name == "contains":
        if ans != [0, (q[1] in sp) or (q[1] in spec)]:
            bad("membership is 'a present species or a stored reaction id'")
    elif name == "len":
        if ans != [0, len(spec)]:
            bad("len = number of stored reactions")
    elif name == "iter":
        if [a[0] for a in ans[1]] != order:
            bad("iteration order")
        for a in ans[1]:
            rule, l, r = spec.get(a[0], (None, None, None))
            exp = [a[0], rule, l, r, S(sorted(set(l or ()) | set(r or ()))), l == r, len(l or ()), len(r or ()),
                   sum((l or {}).values()), sum((r or {}).values())]
            if a[:10] != exp:
                bad("edge view %r, reference %r" % (a[:10], exp))
            if sorted(a[10]["__set__"]) != sorted(x for x, c in (l or {}).items() for _ in range(c)):
                bad("expand")
    elif name == "splist":
        if ans != [0, sorted(sp)]:
            bad("species_list = sorted species")
    elif name == "getedge":
        if q[1] in spec:
            rule, l, r = spec[q[1]]
            if ans[0] != 0 or ans[1][:4] != [q[1], rule, l, r]:
                bad("stored reaction is %r" % (spec[q[1]],))
        elif ans != [1]:
            bad("KeyError expected")
    elif name == "nbrs":
        if q[1] not in sp:
            if ans != [1]:
                bad("KeyError expected for an absent species")
        else:
            N = set()
            for _, l, r in spec.values():
                if q[1] in l:
                    N |= set(r)
            if ans[0] != 0 or sorted(ans[1]["__set__"]) != sorted(N):
                bad("products of the consuming reactions are %r" % sorted(N))
    elif name == "paths":
        _, a, b, hops, maxp, style = q
        if style == "default":
            hops, maxp = 4, None
        if a not in sp or b not in sp:
            if ans != [1]:
                bad("KeyError expected")
        else:
            allp = _all_simple_paths(spec, a, b, hops)
            if ans[0] != 0:
                bad("unexpected error")
            elif maxp is None:
                if ans[1] != allp:
                    bad("all simple paths within %d hops: %r" % (hops, allp))
            else:
                if ans[1] != allp[:len(ans[1])] or (maxp >= 1 and len(ans[1]) != min(maxp, len(allp))):
                    bad("first %d of %r" % (maxp, allp))
    elif name == "inc":
        ref = {}
        for k, (_, l, r) in spec.items():
            for x in set(l) | set(r):
                ref[(x, k)] = r.get(x, 0) - l.get(x, 0)
        if ans[0] != 0 or ans[1] != sorted(sp) or ans[2] != sorted(spec):
            bad("orders")
        elif q[1]:
            if sorted(map(tuple, ans[3]["__set__"])) != sorted((x, k, v) for (x, k), v in ref.items()):
                bad("products - reactants")
        else:
            want = [[ref.get((x, k), 0) for k in sorted(spec)] for x in sorted(sp)]
            if ans[3] != want:
                bad("dense products - reactants %r" % want)
    elif name == "getmol":
        if q[1] not in sp:
            if ans != [1]:
                bad("KeyError (unknown species) expected")
        elif q[1] not in mols:
            if ans != [4]:
                bad("KeyError (no molecule assigned) expected")
        elif ans != [0, jl(mols[q[1]])]:
            bad("label is %r" % (mols[q[1]],))
    return f


def oracle2(case):
    import copy
    from synkit.CRN.Hypergraph.hypergraph import CRNHyperGraph
    from synkit.CRN.Hypergraph.rxn import RXNSide
    n = case["n"]
    nets = [CRNHyperGraph() for _ in range(n)]
    pool = [RXNSide() for _ in range(case.get("k", 0))]
    pref = [dict() for _ in pool]                 # reference value of the caller's side objects
    spec = [dict() for _ in range(n)]             # id -> (rule, lhs, rhs)
    order = [[] for _ in range(n)]
    kept = [set() for _ in range(n)]
    mols = [dict() for _ in range(n)]
    fails = []

    def F(clause, msg):
        fails.append(dict(clause=clause, detail=msg))

    def ref_add(i, t, l, r, rule, eid, er, rid):
        if er is None:
            if rid in spec[i]:
                F("id-unique", "op %d: add returned id %r which already names a stored reaction" % (t, rid))
            if eid is not None and rid != eid:
                F("own-id", "op %d: explicit id %r stored as %r" % (t, eid, rid))
            if not l and not r:
                F("add-error", "op %d: an empty reaction was accepted" % t)
            spec[i][rid] = (rule or "r", dict(l), dict(r))
            order[i].append(rid)
        else:
            expect = "KeyError" if (eid is not None and eid in spec[i]) else ("ValueError" if not l and not r else None)
            if er != expect:
                F("add-error", "op %d: %r, expected %r" % (t, er, expect))

    for t, op in enumerate(case["ops"]):
        k = op[0]
        i = op[1]
        sp_before = [set(H.species) for H in nets]
        snap = [_snapshot(H) for H in nets] if k == "q" else None
        spec_j = None
        if k == "addfrom":
            spec_j = spec[op[2]].get(op[3])
        er, ans = apply2(nets, pool, op)
        if k == "add":
            _, _, l, r, rule, eid = op
            ref_add(i, t, _norm_items([("p", a, c) for a, c in l]), _norm_items([("p", a, c) for a, c in r]), rule, eid, er, ans)
        elif k == "addany":
            _, _, fl, fr, rule, eid, _ = op
            ref_add(i, t, _norm_items(_form_items(fl)), _norm_items(_form_items(fr)), rule, eid, er, ans)
        elif k == "addfrom":
            if spec_j is None:
                if er != "KeyError":
                    F("add-error", "op %d: source reaction absent" % t)
            else:
                ref_add(i, t, spec_j[1], spec_j[2], op[4], op[5], er, ans)
        elif k == "poolnew":
            pref[op[1]] = _norm_items(_raw_items(op[2]))
        elif k == "poolupdate":
            for a, b in _norm_items(_raw_items(op[2])).items():
                pref[op[1]][a] = pref[op[1]].get(a, 0) + b
        elif k == "mergebad":
            if ans != "TypeError":
                F("merge-error", "op %d: merge(42) did not raise TypeError" % t)
        elif k == "pooledit":
            if op[3] > 0:
                pref[op[1]][op[2]] = op[3]
            else:
                pref[op[1]].pop(op[2], None)
        elif k == "addpool":
            ref_add(i, t, pref[op[2]], pref[op[3]], op[4], op[5], er, ans)
        elif k == "rmrxn":
            if op[2] in spec[i]:
                del spec[i][op[2]]
                order[i].remove(op[2])
                if er is not None:
                    F("remove-error", "op %d: %r on a stored id" % (t, er))
            elif er != "KeyError":
                F("remove-error", "op %d: removing a missing id did not raise KeyError" % t)
        elif k == "rmsp":
            x = op[2]
            if x in sp_before[i]:
                if er is not None:
                    F("remove-species-error", "op %d: %r for a present species" % (t, er))
                new = {}
                for eid, (rule, l, r) in spec[i].items():
                    l2 = {a: c for a, c in l.items() if a != x}
                    r2 = {a: c for a, c in r.items() if a != x}
                    if l2 or r2:
                        new[eid] = (rule, l2, r2)
                spec[i] = new
                order[i] = [e for e in order[i] if e in new]
                if not op[3]:
                    kept[i].add(x)
                else:
                    kept[i].discard(x)
                if op[3] and x in nets[i].species:
                    F("remove-species", "op %d: %r still a species after remove_species(prune_orphans=True)" % (t, x))
            elif er != "KeyError":
                F("remove-species-error", "op %d: absent species, got %r" % (t, er))
        elif k in ("merge", "mergeraw"):
            if k == "merge":
                j = op[2]
                other = [(e, spec[j][e][0], spec[j][e][1], spec[j][e][2]) for e in order[j]]
            else:
                other = [(e, (ru or "r"), _norm_items(_raw_items(l)), _norm_items(_raw_items(r))) for e, ru, l, r in op[2]]
            prefix = op[3]
            exp_err = None
            for (e, ru, l, r) in other:
                if not l and not r:
                    exp_err = "ValueError"
                    break
                cur_ids = list(nets[i].edges)
                pos = len(order[i])
                if pos >= len(cur_ids):
                    F("merge-adds", "op %d: reaction %r of the other network was not stored" % (t, e))
                    break
                nid = cur_ids[pos]
                if nid in spec[i]:
                    F("id-unique", "op %d: merge reused id %r" % (t, nid))
                if (not prefix) and e is not None and e not in spec[i] and nid != e:
                    F("merge-ids", "op %d: free id %r not kept (stored as %r)" % (t, e, nid))
                spec[i][nid] = (ru, dict(l), dict(r))
                order[i].append(nid)
            if er != exp_err:
                F("merge-error", "op %d: merge raised %r, expected %r" % (t, er, exp_err))
        elif k == "copy":
            j = op[2]
            spec[j] = copy.deepcopy(spec[i])
            order[j] = list(order[i])
            kept[j] = set(kept[i])
            mols[j] = copy.deepcopy(mols[i])
        elif k == "mol":
            if op[2] in sp_before[i]:
                mols[i][op[2]] = op[3]
                if er is not None:
                    F("label-error", "op %d: assign_mol on a present species raised %r" % (t, er))
            elif er != "KeyError":
                F("label-error", "op %d: assign_mol(%r) accepted although no such species is present" % (t, op[2]))
        elif k == "molmap":
            keys = [a for a, _ in op[2]]
            unknown = [a for a in keys if not (isinstance(a, str) and a in sp_before[i])]
            if op[3] and unknown:
                if er != "KeyError":
                    F("label-error", "op %d: set_mol_map(strict=True) accepted unknown species %r" % (t, unknown))
            else:
                if er is not None:
                    F("label-error", "op %d: set_mol_map raised %r" % (t, er))
                if op[4]:
                    mols[i].clear()
                for a, b in {a: b for a, b in op[2]}.items():
                    if a not in unknown:
                        mols[i][a] = b
        elif k in ("sideset", "sideincr"):
            _, _, e, lhs, x, c = op
            if e in spec[i]:
                sd = spec[i][e][1 if lhs else 2]
                v = c if k == "sideset" else sd.get(x, 0) + c
                if x in sd and v > 0:
                    sd[x] = v
            elif er != "KeyError":
                F("edit-error", "op %d: edge absent" % t)
        elif k == "q":
            if [_snapshot(H) for H in nets] != snap:
                F("query-pure", "op %d: query %r changed the state" % (t, op))
            if er is not None:
                F("query-error", "op %d: %r" % (t, er))
            else:
                fails.extend(_judge_query(nets[i], op[2:], ans, spec[i], order[i], set(nets[i].species), mols[i], t))
        # labels of species that disappeared are dropped for good
        for q in range(n):
            for x in list(mols[q]):
                if x not in nets[q].species:
                    del mols[q][x]
        # after every op: the whole invariant on every network (covers copy / merge / argument independence)
        for q in range(n):
            for msg in check_net2(nets[q], spec[q], order[q], kept[q], mols[q], "net %d after op %d %r" % (q, t, op)):
                fails.append(dict(clause="invariant", detail=msg))
        for kk, p in enumerate(pool):
            if dict(p.to_dict()) != pref[kk]:
                F("caller-object", "op %d: caller-held side %d is %r, expected %r" % (t, kk, p.to_dict(), pref[kk]))
        if fails:
            break
    return fails[:3]


# ------------------------------------------------------------------ generators

def P(*kv):
    return [[a, b] for a, b in kv]


# a state with every kind of name overlap: a species called like a generated id (r_2), a reaction id that is also a
# species (x), a reaction id that looks like a species (A), falsy labels, a kept species (D), two-digit coefficient
PRE2 = [
    ["add", 0, P(("A", 1), ("r_2", 1)), P(("B", 2)), "r", None],                                   # r_1
    ["addany", 0, ["iter", [["l", "B"]]], ["iter", [["l", "C"], ["l", "C"], ["l", "x"]]], "q", "x", "kw"],
    ["addany", 0, ["map", P(("C", 1))], ["map", P(("A", 1))], "q", None, "pos"],                   # q_1
    ["add", 0, P(("B", 12)), P(("D", 1)), "r", "A"],
    ["molmap", 0, P(("A", 0), ("B", ""), ("r_2", "lab"), ("x", None), ("D", False)), True, False],
    ["add", 1, P(("r_2", 1)), P(("E", 1)), "", None],                                              # r_1 in net 1
    ["add", 1, P(("E", 1), ("A", 1)), P(("E", 1), ("B", 1)), "r", "r_2"],
    ["rmsp", 0, "D", False],
    ["mol", 1, "E", 0],
]

LABELS = [0, "", None, False, "m1", 12, [1, 2], {"a": 1}, 0.0]


def queries(i):
    qs = [["q", i, "len"], ["q", i, "iter", "iter"], ["q", i, "iter", "edge_list"], ["q", i, "splist"],
          ["q", i, "inc", True, "kw"], ["q", i, "inc", False, "kw"], ["q", i, "inc", True, "default"],
          ["q", i, "inc", True, "stoich"], ["q", i, "inc", False, "stoich"]]
    for x in ("A", "r_2", "x", "r_1", "q_1", "D", "Z", ""):
        qs.append(["q", i, "contains", x])
    for x in ("A", "r_2", "x", "r_1", "D", "E", "Z"):
        qs.append(["q", i, "getmol", x])
    for x in ("A", "B", "x", "r_1", "D", "Z"):
        qs.append(["q", i, "nbrs", x])
    for e in ("r_1", "x", "A", "B", "q_1"):
        qs.append(["q", i, "getedge", e])
    qs += [["q", i, "paths", "A", "A", 4, None, "default"], ["q", i, "paths", "A", "x", 4, None, "default"],
           ["q", i, "paths", "B", "A", 2, None, "kw"], ["q", i, "paths", "B", "A", 1, None, "pos"],
           ["q", i, "paths", "r_2", "C", 3, 1, "kw"], ["q", i, "paths", "r_2", "A", 10, 2, "pos"],
           ["q", i, "paths", "A", "C", 0, None, "kw"], ["q", i, "paths", "A", "B", -1, 0, "kw"],
           ["q", i, "paths", "A", "Z", 4, None, "kw"], ["q", i, "paths", "D", "A", 4, None, "kw"],
           ["q", i, "paths", "C", "B", 12, -3, "kw"]]
    return qs


def mutators():
    ms = []
    # add: every input form, every id style, falsy names
    ms += [["add", 0, P(("A", 1)), P(("F", 1)), "r", None], ["add", 0, P(("A", 1)), P(("F", 1)), "r", "r_2"],
           ["add", 0, P(("A", 1)), P(("F", 1)), "r", "r_1"], ["add", 0, P(("A", 1)), P(("F", 1)), "q", ""],
           ["add", 0, P(("x", 1)), P(("r_2", 10)), "r_2", None], ["add", 0, [], [], "r", None],
           ["add", 0, P(("A", 0)), P(("B", -2)), "r", "y"], ["add", 0, P(("A", 1000)), P(("B", 4321)), "r", None], ["add", 1, P(("B", 1)), P(("r_2", 1)), "r", None],
           ["addany", 0, ["map", P(("", 2), (7, 2), ("B", "3"), ("t", True), ("n", 0))], ["iter", [["p", "", 1], ["l", ""], ["l", "A"]]], None, None, "kw"],
           ["addany", 0, ["iter", [["l", "A"], ["p", "A", 2], ["l", "A"], ["p", "Q", -1]]], ["map", []], "", "r_7", "pos"],
           ["addany", 0, ["iter", []], ["iter", [["l", ""]]], "r", None, "kw"],
           ["addany", 0, ["side", [["p", "A", 1], ["p", "G", 11]]], ["side", [["l", "B"]]], "q", None, "kw"],
           ["addany", 1, ["side", [["l", "E"]]], ["map", P(("E", 2.9))], "r", "E", "pos"]]
    ms += [["addfrom", 0, 1, "r_2", "r", None], ["addfrom", 1, 0, "r_1", "zz", None], ["addfrom", 0, 0, "x", "q", "x2"],
           ["addfrom", 0, 1, "nope", "r", None], ["addfrom", 1, 0, "A", None, "r_1"]]
    ms += [["poolnew", 0, [["p", "A", 2], ["l", "B"], ["p", "A", 1], ["l", ""], ["p", "Z", 0]], "ctor"],
           ["poolupdate", 0, [["p", "A", 10], ["l", "K"], ["p", "B", -1]]], ["poolupdate", 1, [["p", "C", 2], ["p", "E", 1]]], ["mergebad", 0],
           ["poolnew", 0, [["p", "A", 2], ["l", "B"]]], ["poolnew", 1, [["l", "C"]]], ["pooledit", 0, "A", 5],
           ["pooledit", 0, "B", 0], ["pooledit", 1, "Zz", 3], ["addpool", 0, 0, 1, "r", None], ["addpool", 1, 0, 0, "p", None],
           ["addpool", 0, 1, 1, "r", "x"]]
    ms += [["rmrxn", 0, e] for e in ("r_1", "x", "A", "q_1", "r_2")] + [["rmrxn", 1, "r_1"], ["rmrxn", 1, "r_2"]]
    for x in ("A", "B", "C", "x", "r_2", "D", "r_1"):
        ms += [["rmsp", 0, x, True], ["rmsp", 0, x, False]]
    ms += [["rmsp", 0, "B", True, "default"], ["rmsp", 1, "E", True], ["rmsp", 1, "r_2", False]]
    ms += [["merge", 0, 1, True], ["merge", 0, 1, False], ["merge", 1, 0, True, "default"], ["merge", 1, 0, False, "pos"],
           ["merge", 0, 0, False], ["merge", 0, 1, True, "pos"]]
    ms += [["mergeraw", 0, [[None, "r", [["p", "A", 1]], [["l", "H"]]], ["x", "", [["l", "H"]], [["p", "A", 2]]],
                            ["new", "q", [["l", "B"], ["l", "B"]], []]], False],
           ["mergeraw", 0, [["r_1", "r", [["p", "r_1", 1]], [["l", "x"]]]], True],
           ["mergeraw", 1, [["k1", "r", [["l", "A"]], [["l", "B"]]], ["k2", "r", [], [["p", "B", 0]]], ["k3", "r", [["l", "A"]], []]], False]]
    ms += [["copy", 0, 1], ["copy", 1, 0], ["copy", 0, 1, "deep"], ["copy", 0, 0]]
    for x in ("A", "r_2", "x", "r_1", "q_1", "D", "Z", ""):
        ms.append(["mol", 0, x, "m1"])
    ms += [["mol", 0, "A", v] for v in LABELS] + [["mol", 1, "r_2", 0], ["mol", 1, "r_1", "m"]]
    tables = [P(("A", 1), ("B", 2)), P(("r_1", "e")), P(("A", 3), ("r_1", "e")), P(("x", "xx"), ("q_1", "e")), P(("Z", 1)),
              [], P(("A", ""), ("C", 0)), P(("r_2", "lab"), ("A", 0), ("D", None))]
    for tb in tables:
        for st in (True, False):
            for cl in (True, False):
                ms.append(["molmap", 0, tb, st, cl])
    ms += [["molmap", 0, tables[0], True, False, "default"], ["molmap", 0, tables[2], False, True, "default"],
           ["molmap", 1, P(("r_2", 5), ("r_1", 6)), False, False], ["molmap", 1, P(("r_1", 6)), True, False],
           ["molmap", 0, P((0, "z"), ("A", "a")), False, False], ["molmap", 0, P((None, "z")), True, False]]
    # caller edits of stored sides that keep the key set
    ms += [["sideset", 0, "r_1", True, "A", 3], ["sideset", 0, "A", True, "B", 1], ["sideincr", 0, "x", False, "C", 9],
           ["sideincr", 0, "r_1", False, "B", -1], ["sideset", 0, "nope", True, "A", 3], ["sideincr", 1, "r_2", True, "E", 1]]
    return ms


def _rand_hist2(rng, maxlen, n):
    sp = ["A", "B", "C", "r_1", "r_2", "x", "q_1", ""]
    rules = ["r", "q", "r_1", "", None]
    ids = ["r_1", "r_2", "q_1", "x", "A", "B", "r_10", ""]
    ops = []
    for _ in range(rng.randint(4, maxlen)):
        i = rng.randrange(n)
        z = rng.random()

        def items(allow_label=True):
            out = []
            for _ in range(rng.choice([0, 1, 1, 2, 2, 3])):
                if allow_label and rng.random() < 0.4:
                    out.append(["l", rng.choice(sp)])
                else:
                    out.append(["p", rng.choice(sp), rng.choice([1, 1, 1, 2, 3, 0, -1, 12])])
            return out
        if z < 0.25:
            t = rng.choice(["map", "iter", "iter", "side"])
            fl = [t, [[it[1], it[2]] for it in items(False)]] if t == "map" else [t, items()]
            fr = ["iter", items()]
            ops.append(["addany", i, fl, fr, rng.choice(rules), rng.choice([None, None, None] + ids), rng.choice(["kw", "pos"])])
        elif z < 0.30:
            ops.append(["addfrom", i, rng.randrange(n), rng.choice(ids), rng.choice(rules), rng.choice([None, None] + ids)])
        elif z < 0.40:
            ops.append(["rmrxn", i, rng.choice(ids + ["r_3", "q_2"])])
        elif z < 0.50:
            ops.append(["rmsp", i, rng.choice(sp + ["Z"]), rng.random() < 0.5])
        elif z < 0.56:
            ops.append(["merge", i, rng.randrange(n), rng.random() < 0.5])
        elif z < 0.60:
            ops.append(["copy", i, rng.randrange(n)] + (["deep"] if rng.random() < 0.3 else []))
        elif z < 0.68:
            ops.append(["mol", i, rng.choice(sp + ids), rng.choice(LABELS)])
        elif z < 0.76:
            ops.append(["molmap", i, [[rng.choice(sp + ids + ["Z"]), rng.choice(LABELS)] for _ in range(rng.randint(0, 3))],
                        rng.random() < 0.5, rng.random() < 0.4])
        elif z < 0.80:
            k = rng.randrange(2)
            ops.append(rng.choice([["poolnew", k, items()], ["pooledit", k, rng.choice(sp), rng.choice([0, 1, 4, 11])],
                                   ["poolupdate", k, items()],
                                   ["addpool", i, rng.randrange(2), rng.randrange(2), rng.choice(rules), rng.choice([None] + ids)]]))
        elif z < 0.83:
            ops.append(["mergeraw", i, [[rng.choice([None, None] + ids), rng.choice(["r", "q", "", "r_1"]), items(), items()]
                                        for _ in range(rng.randint(0, 3))], rng.random() < 0.5])
        elif z < 0.87:
            ops.append([rng.choice(["sideset", "sideincr"]), i, rng.choice(ids), rng.random() < 0.5, rng.choice(sp),
                        rng.choice([1, 2, 5, 11, 0, -1, -3])])
        else:
            ops.append(rng.choice(queries(i)))
    return ops


def big_case():
    """>= 100 species / reactions: three-digit generated ids, two-digit coefficients, a long chain for paths."""
    ops = []
    for k in range(110):
        ops.append(["add", 0, P(("S%d" % k, 1 + k % 13)), P(("S%d" % (k + 1), 10 + k % 7)), "r", None])
    ops += [["q", 0, "len"], ["q", 0, "paths", "S0", "S6", 10, None, "kw"], ["q", 0, "inc", False, "kw"],
            ["rmsp", 0, "S50", True], ["rmrxn", 0, "r_100"], ["rmrxn", 0, "r_10"], ["add", 0, P(("S3", 1)), P(("S0", 1)), "r", None],
            ["q", 0, "contains", "r_111"], ["q", 0, "splist"], ["copy", 0, 1], ["merge", 1, 0, True], ["q", 1, "len"],
            ["mol", 1, "S109", 0], ["q", 1, "getmol", "S109"]]
    return dict(kind="h2-big", n=2, k=0, views=False, skip=108, ops=ops)


SCRIPTS = [
    # a species named like a generated id is pruned; the next generated id IS that name; the old label table is re-applied
    [["rmrxn", 0, "r_1"], ["add", 0, P(("A", 1)), P(("B", 1)), "r", None], ["q", 0, "contains", "r_2"],
     ["molmap", 0, P(("r_2", "lab"), ("A", 0)), False, False], ["q", 0, "getmol", "r_2"], ["molmap", 0, P(("r_2", "lab")), True, False],
     ["mol", 0, "r_2", "lab"], ["q", 0, "getedge", "r_2"], ["rmsp", 0, "r_2", True], ["q", 0, "nbrs", "r_2"]],
    # matrices asked before and after in-place coefficient edits, stripping with a kept species, re-adding it
    [["q", 0, "inc", False, "kw"], ["q", 0, "inc", True, "kw"], ["sideset", 0, "r_1", True, "A", 5], ["q", 0, "inc", False, "stoich"],
     ["rmsp", 0, "B", False], ["q", 0, "inc", False, "kw"], ["q", 0, "inc", True, "default"], ["add", 0, P(("B", 3)), P(("D", 1)), "r", None],
     ["q", 0, "inc", False, "kw"], ["q", 0, "splist"], ["q", 0, "len"]],
    # copy, then label / structure edits of the original; the copy answers as before; then the other way round
    [["copy", 0, 1], ["mol", 0, "A", "new"], ["molmap", 0, [], True, True], ["q", 1, "getmol", "A"], ["rmsp", 0, "A", True],
     ["q", 1, "paths", "C", "B", 4, None, "kw"], ["q", 1, "nbrs", "A"], ["mol", 1, "C", 0], ["q", 0, "getmol", "C"], ["q", 1, "getmol", "C"]],
    # merge (default prefix), then edits of the source; the target keeps its copies; merged ids skip look-alikes
    [["merge", 1, 0, True, "default"], ["rmsp", 0, "B", True], ["rmrxn", 0, "x"], ["q", 1, "iter", "edge_list"], ["q", 1, "len"],
     ["merge", 1, 1, False], ["q", 1, "len"], ["q", 1, "inc", False, "kw"]],
]


def gen_cases2(tier, rng):
    cases = []
    for sc in SCRIPTS:
        for vw in (False, True):
            cases.append(dict(kind="h2-script", n=2, k=2, views=vw, skip=len(PRE2) - 1, ops=PRE2 + sc))
    # every query on a fresh network, after the first add, and after removing it again
    cases.append(dict(kind="h2-script", n=1, k=0, views=True,
                      ops=queries(0) + [["add", 0, P(("A", 1)), P(("B", 1)), "", None]] + queries(0) + [["rmrxn", 0, "r_1"]] + queries(0)))
    Q0, M = queries(0), mutators()
    ALL = M + Q0 + queries(1)[:6]
    # (A) surface: every op / option value once after the preamble, observed with and without the derived views
    for o in ALL:
        cases.append(dict(kind="h2-surface", n=2, k=2, views=True, skip=0 if len(cases) % 10 == 0 else len(PRE2) - 1, ops=PRE2 + [o]))
    for o in ALL[::2]:
        cases.append(dict(kind="h2-surface", n=2, k=2, views=False, skip=len(PRE2) - 1, ops=PRE2 + [o]))
    # on an empty network (degenerate): every query and the label ops
    for o in Q0 + [m for m in M if m[0] in ("mol", "molmap", "rmsp", "rmrxn", "merge", "copy")][::3]:
        cases.append(dict(kind="h2-empty", n=2, k=2, views=True, ops=[o, ["q", 0, "len"]]))
    # (B) query -> edit -> same query (stale answers), without the always-on views: EVERY (query, mutator) pair is covered
    # in the quick tier: the queries come in groups of 9, asked before and after one mutator
    G = 9
    groups = [Q0[a:a + G] for a in range(0, len(Q0), G)]
    for m in M:
        for g in groups:
            cases.append(dict(kind="h2-stale", n=2, k=2, views=False, lite=True, skip=len(PRE2), ops=PRE2 + g + [m] + g))
    # edits that keep every COUNT (species, reactions, labels) but change the content: remove one thing and add another
    SWAPS = [
        [["rmrxn", 0, "q_1"], ["add", 0, P(("C", 2)), P(("A", 3)), "q", "q_1"]],                      # same id, other coefficients
        [["rmrxn", 0, "q_1"], ["add", 0, P(("A", 1)), P(("C", 1)), "q", None]],                        # reversed reaction, id q_2
        [["rmrxn", 0, "r_1"], ["add", 0, P(("A", 1), ("r_2", 1)), P(("B", 2)), "r", "r_9"]],           # same reaction under another id
        [["rmsp", 0, "x", True], ["add", 0, P(("B", 1)), P(("y", 1)), "q", None]],                     # species x replaced by y
        [["rmsp", 0, "D", True], ["add", 0, P(("B", 1)), P(("Dd", 1)), "r", None], ["rmrxn", 0, "A"]],
        [["molmap", 0, P(("A", 1), ("B", 2), ("r_2", 3), ("x", 4), ("D", 5)), True, True]],             # same keys, other labels
        [["molmap", 0, P(("C", "c")), True, False], ["rmsp", 0, "r_2", True], ["add", 0, P(("r_2", 1)), P(("A", 1)), "r", None]],
        [["copy", 1, 0], ["copy", 0, 1]],
        [["merge", 0, 1, False], ["rmrxn", 0, "r_2"], ["rmrxn", 0, "r_3"]],
    ]
    for sw in SWAPS:
        for g in groups:
            cases.append(dict(kind="h2-count", n=2, k=2, views=False, lite=True, skip=len(PRE2), ops=PRE2 + g + sw + g))
        cases.append(dict(kind="h2-count", n=2, k=2, views=True, skip=len(PRE2), ops=PRE2 + sw))
    if tier == "thorough":
        for m in M:
            for g in groups:
                gq = [["q", 1, q[2]] + q[3:] for q in g]
                cases.append(dict(kind="h2-stale", n=2, k=2, views=False, lite=True, skip=len(PRE2),
                                  ops=PRE2 + g + gq + [m] + g + gq))
    # (B') edit -> edit -> query / copy then edit the original, query both
    mm = [(a, b) for a in M for b in M]
    for a, b in rng.sample(mm, 600 if tier == "quick" else 3000):
        q = rng.choice(Q0)
        cases.append(dict(kind="h2-pairs", n=2, k=2, views=rng.random() < 0.5, skip=len(PRE2),
                          ops=PRE2 + [a, b, q, ["q", 1, q[2]] + q[3:]]))
    for m in M:
        if m[1] == 0 and m[0] not in ("copy",):
            cases.append(dict(kind="h2-copy", n=3, k=2, views=True, skip=len(PRE2),
                              ops=PRE2 + [["copy", 0, 2, rng.choice(["deep", "copy"])], m, ["q", 2, "inc", False, "kw"], ["q", 2, "splist"]]))
    # (C) random histories over the overlapping vocabulary
    for _ in range(500 if tier == "quick" else 1500):
        cases.append(dict(kind="h2-random", n=3, k=2, views=rng.random() < 0.5, ops=_rand_hist2(rng, 24 if tier == "quick" else 40, 3)))
    cases.append(big_case())
    return cases
