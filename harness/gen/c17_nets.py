"""Reaction-network generators shared by C17 and C19 (own file of these two properties).

A network case is   {"rxns": [[id, rule, [[species, coeff], ...], [[species, coeff], ...]], ...],
                     "iso": [species kept without incidence, ...], "view": "hyper"|"bip_int"|"bip_str"}
Sides are dict-like (distinct species, positive coefficients); reactions are listed in INSERTION order
(deliberately not sorted), ids are always explicit so that the model input is the case itself.
"""
import itertools

# the 10 complexes of molecularity <= 2 over 3 species (DESIGN section 5, C16-C20 small scope)
def alphabet_complexes(sp=("A", "B", "C")):
    a, b, c = sp
    return [(), ((a, 1),), ((b, 1),), ((c, 1),), ((a, 2),), ((b, 2),), ((c, 2),),
            ((a, 1), (b, 1)), ((a, 1), (c, 1)), ((b, 1), (c, 1))]


def alphabet_reactions(sp=("A", "B", "C")):
    cx = alphabet_complexes(sp)
    return [(l, r) for l in cx for r in cx if l != r]            # 90


NAME_POOLS = [("A", "B", "C"), ("A", "B", "C"), ("B10", "B2", "a"), ("X_1", "X", "Xa"), ("c", "b", "a"), ("S", "ES", "E")]
RULES = ["r", "q"]


def _side(cx, ren=None, mul=1):
    return [[(ren[s] if ren else s), c * mul] for s, c in cx]


def assign_ids(rxn_sides, rng, style=None):
    """rxn_sides: list of (lhs, rhs) with sides as lists of [species, coeff].  Returns case reactions with rule and id.
    styles: 'gen'  ids <rule>_<k> in insertion order (what add_rxn generates);
            'adv'  ids whose string order differs from insertion order and from the rule order;
            'num'  r_1 .. r_12 style with two-digit suffixes (string order r_10 < r_2)."""
    style = style or rng.choice(["gen", "gen", "adv", "num"])
    out = []
    cnt = {}
    pool = ["z", "a", "m", "b", "r_1", "q_1", "R", "_", "a0", "Z9", "k", "c"]
    if style == "adv":
        ids = rng.sample(pool, len(rxn_sides)) if len(rxn_sides) <= len(pool) else None
    for k, (l, r) in enumerate(rxn_sides):
        rule = rng.choice(RULES)
        if style == "gen" or (style == "adv" and ids is None):
            cnt[rule] = cnt.get(rule, 0) + 1
            eid = "%s_%d" % (rule, cnt[rule])
        elif style == "adv":
            eid = ids[k]
        else:
            cnt[rule] = cnt.get(rule, 0) + rng.choice([1, 1, 4, 9])
            eid = "%s_%d" % (rule, cnt[rule])
        out.append([eid, rule, l, r])
    return out


def exhaustive_alphabet(max_rxns, rng, kind):
    """All sets of 1..max_rxns reactions over the molecularity-<=2 alphabet; names, rules, ids, insertion order
    and an occasional common coefficient factor are PRNG decorations."""
    cases = []
    base = alphabet_reactions()
    for k in range(1, max_rxns + 1):
        for combo in itertools.combinations(range(len(base)), k):
            names = rng.choice(NAME_POOLS)
            ren = dict(zip(("A", "B", "C"), names))
            order = list(combo)
            rng.shuffle(order)
            sides = []
            for i in order:
                l, r = base[i]
                sides.append((_side(l, ren), _side(r, ren)))
            cases.append(dict(kind=kind, rxns=assign_ids(sides, rng), iso=[], view="hyper"))
    return cases


def sample_alphabet(k, count, rng, kind):
    base = alphabet_reactions()
    cases = []
    seen = set()
    while len(cases) < count:
        combo = tuple(sorted(rng.sample(range(len(base)), k)))
        if combo in seen:
            continue
        seen.add(combo)
        names = rng.choice(NAME_POOLS)
        ren = dict(zip(("A", "B", "C"), names))
        order = list(combo)
        rng.shuffle(order)
        sides = [(_side(base[i][0], ren), _side(base[i][1], ren)) for i in order]
        cases.append(dict(kind=kind, rxns=assign_ids(sides, rng), iso=[], view="hyper"))
    return cases


def coeff_reactions():
    """All reactions over 3 species with every coefficient in {0,1,2}, not both sides empty (728)."""
    vecs = list(itertools.product((0, 1, 2), repeat=3))
    return [(l, r) for l in vecs for r in vecs if any(l) or any(r)]


def _perm_rxn(rx, p):
    l, r = rx
    return (tuple(l[p[i]] for i in range(3)), tuple(r[p[i]] for i in range(3)))


def coeff_sweep(max_rxns, rng, kind, limit=None):
    """All sets of 1..max_rxns (<=2) reactions with coefficients in {0,1,2} over 3 species, reduced by the 6 species
    permutations (one representative per orbit; reaction order is immaterial because sets are unordered)."""
    R = coeff_reactions()
    perms = list(itertools.permutations(range(3)))
    reps = []
    for rx in R:
        if min((_perm_rxn(rx, p),) for p in perms) == (rx,):
            reps.append((rx,))
    if max_rxns >= 2:
        for i in range(len(R)):
            for j in range(i + 1, len(R)):
                pair = (R[i], R[j])
                best = min(tuple(sorted((_perm_rxn(R[i], p), _perm_rxn(R[j], p)))) for p in perms)
                if best == pair:
                    reps.append(pair)
    if limit is not None and len(reps) > limit:
        reps = rng.sample(reps, limit)
    cases = []
    sp = ("A", "B", "C")
    for rep in reps:
        sides = []
        for l, r in rep:
            sides.append(([[sp[i], l[i]] for i in range(3) if l[i]], [[sp[i], r[i]] for i in range(3) if r[i]]))
        rng.shuffle(sides)
        cases.append(dict(kind=kind, rxns=assign_ids(sides, rng, style=rng.choice(["gen", "adv"])), iso=[], view="hyper"))
    return cases


SPECIES7 = ["A", "B", "C", "D", "Ee", "F1", "G_1"]


def random_net(rng, max_s=7, max_r=6, maxc=3, kind="random"):
    ns = rng.randint(1, max_s)
    nr = rng.randint(1, max_r)
    sp = SPECIES7[:ns]
    sides = []
    for _ in range(nr):
        z = rng.random()
        while True:
            l = {s: rng.randint(1, maxc) for s in rng.sample(sp, min(ns, rng.choice([0, 1, 1, 2, 2, 3])))}
            r = {s: rng.randint(1, maxc) for s in rng.sample(sp, min(ns, rng.choice([0, 1, 1, 2, 2, 3])))}
            if l or r:
                break
        if z < 0.15 and sides:                       # reverse of an earlier reaction (creates positive fluxes)
            l0, r0 = rng.choice(sides)
            l, r = dict(r0), dict(l0)
        elif z < 0.22 and sides:                     # repeated reaction
            l0, r0 = rng.choice(sides)
            l, r = dict(l0), dict(r0)
        elif z < 0.30 and l:                         # catalyst: same species on both sides
            s = rng.choice(sorted(l))
            r[s] = rng.randint(1, maxc)
        elif z < 0.36:                               # multi-digit coefficients
            l = {k: v * 12 for k, v in l.items()}
        sides.append((sorted(l.items()), sorted(r.items())))
    sides = [([list(x) for x in l], [list(x) for x in r]) for l, r in sides]
    iso = []
    if rng.random() < 0.15:
        iso = [rng.choice(["Iso", "A0", "zz"])]
    view = rng.choice(["hyper", "hyper", "bip_int", "bip_str"])
    return dict(kind=kind, rxns=assign_ids(sides, rng), iso=iso, view=view)


def conservative_net(rng, kind="random-conservative"):
    """Mass-preserving random network: every species gets a positive integer mass, reactions are balanced
    (so the network is conservative and the left kernel usually has dimension > 1 without a positive basis
    vector: the LP branch of is_conservative)."""
    ns = rng.randint(3, 7)
    sp = SPECIES7[:ns]
    mass = {s: rng.choice([1, 1, 2, 2, 3, 4]) for s in sp}
    sides = []
    tries = 0
    while len(sides) < rng.randint(1, 4) and tries < 200:
        tries += 1
        l = {s: rng.randint(1, 2) for s in rng.sample(sp, rng.randint(1, 2))}
        r = {s: rng.randint(1, 2) for s in rng.sample(sp, rng.randint(1, 2))}
        if l != r and sum(mass[s] * c for s, c in l.items()) == sum(mass[s] * c for s, c in r.items()):
            sides.append(([list(x) for x in sorted(l.items())], [list(x) for x in sorted(r.items())]))
            if rng.random() < 0.4:
                sides.append(([list(x) for x in sorted(r.items())], [list(x) for x in sorted(l.items())]))
    if not sides:
        sides = [([["A", 1], ["B", 1]], [["C", 2]])] if mass["A"] + mass["B"] == 2 * mass["C"] else [([["A", 1]], [["A", 1]])]
    return dict(kind=kind, rxns=assign_ids(sides, rng), iso=[], view=rng.choice(["hyper", "bip_int"]))


def _parse(s):
    """'A + 2 B' -> [['A',1],['B',2]]  ('0' or '' = empty complex)"""
    s = s.strip()
    if s in ("", "0"):
        return []
    out = []
    for t in s.split("+"):
        t = t.strip().split()
        if len(t) == 2:
            out.append([t[1], int(t[0])])
        else:
            out.append([t[0], 1])
    return out


def net_from_strings(lines, kind, name=None, rule="r", **extra):
    rx = []
    for k, ln in enumerate(lines):
        if "<>" in ln:
            a, b = ln.split("<>")
            rx.append((_parse(a), _parse(b)))
            rx.append((_parse(b), _parse(a)))
        else:
            a, b = ln.split(">>")
            rx.append((_parse(a), _parse(b)))
    rxns = [["%s_%d" % (rule, k + 1), rule, l, r] for k, (l, r) in enumerate(rx)]
    d = dict(kind=kind, rxns=rxns, iso=[], view="hyper")
    if name:
        d["name"] = name
    d.update(extra)
    return d


def textbook():
    """Textbook networks; 'delta' = known deficiency (used by C19), 'wr' = weakly reversible."""
    T = []
    def add(name, lines, **kw):
        T.append(net_from_strings(lines, "textbook", name="textbook/" + name, **kw))
    add("rev-A+B=C", ["A + B <> C"], delta=0, wr=True)
    add("A+B>>C+D", ["A + B >> C + D"], delta=0, wr=False)
    add("two-exchange", ["A + B >> C + D", "C + B >> F + A"], delta=0, wr=False)
    add("single-C+B>>F+A", ["C + B >> F + A"], delta=0, wr=False)
    add("open-0>A,0>2A", ["0 >> A", "0 >> 2 A"], delta=1, wr=False)
    add("michaelis-menten", ["E + S <> ES", "ES >> E + P"], delta=0, wr=False)
    add("edelstein", ["A <> 2 A", "A + B <> C", "C <> B"], delta=1, wr=True)
    add("futile-cycle", ["S + E <> SE", "SE >> P + E", "P + F <> PF", "PF >> S + F"], delta=1, wr=False)
    add("double-futile", ["S0 + E <> S0E", "S0E >> S1 + E", "S1 + E <> S1E", "S1E >> S2 + E",
                          "S2 + F <> S2F", "S2F >> S1 + F", "S1 + F <> S1F", "S1F >> S0 + F"], delta=2, wr=False)
    add("lotka-volterra", ["X >> 2 X", "X + Y >> 2 Y", "Y >> 0"], delta=1, wr=False)
    add("brusselator", ["0 >> X", "X >> Y", "2 X + Y >> 3 X", "X >> 0"], delta=1, wr=False)
    add("horn-jackson", ["3 A >> A + 2 B", "A + 2 B >> 3 B", "3 B >> 2 A + B", "2 A + B >> 3 A"], delta=2, wr=True)
    add("feinberg-2A=B,A+C=D", ["2 A <> B", "A + C <> D", "D >> B + E", "B + E >> A + C"], delta=0, wr=True)
    add("triangle", ["A >> B", "B >> C", "C >> A"], delta=0, wr=True)
    add("open-chain", ["0 >> A", "A >> B", "B >> 0"], delta=0, wr=True)
    add("autocat", ["A + B >> 2 B", "B >> A"], delta=1, wr=False)
    for n in (2, 3, 5, 7):
        add("rev-chain-%d" % n, ["X%d <> X%d" % (i, i + 1) for i in range(1, n)], delta=0, wr=True)
        add("cycle-%d" % n, ["X%d >> X%d" % (i, i % n + 1) for i in range(1, n + 1)], delta=0, wr=True)
        add("irrev-chain-%d" % n, ["X%d >> X%d" % (i, i + 1) for i in range(1, n)], delta=0, wr=False)
        add("open-%d" % n, ["0 >> X1"] + ["X%d >> X%d" % (i, i + 1) for i in range(1, n)] + ["X%d >> 0" % n], delta=0, wr=True)
    return T
