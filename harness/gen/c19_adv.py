"""C19 adversarial streams (own file of C19).

* bridged cycles: directed cycles joined by one-way / two-way bridges (>= 5 reactions).  With a one-way bridge every complex
  still has in-degree > 0 and out-degree > 0 but the linkage class is NOT strongly connected: separates "weakly reversible"
  from local degree tests.
* big networks: >= 10 species and >= 10 reactions, names / ids with multi-digit suffixes (string order != numeric order).
* histories: ONE analyzer object, the underlying CRNHyperGraph is edited between the calls (reaction removed / added);
  case["edits"] = [["del", id] | ["add", [id, rule, lhs, rhs]] | ["rmsp", species], ...], case["style"] = 0 (compute_crn_deficiency) or
  1 (compute_summary + compute_linkage_deficiencies + run_deficiency_one_algorithm).  Step 0 = the initial network.
"""
from . import c17_nets as G


def names(n, style):
    if style == "num":                      # X1, X10, X11, X2 ... as strings
        return ["X%d" % i for i in range(1, n + 1)]
    if style == "s3":                       # S0, S3, ..., S33: S12 < S3 as strings
        return ["S%d" % (3 * i) for i in range(n)]
    if style == "mix":
        base = ["A", "B", "C", "D", "Ee", "F1", "G_1", "H10", "H2", "a", "b0", "Zz", "k", "m_2", "m_10", "Q"]
        return base[:n]
    return [chr(ord("A") + i) for i in range(n)]


def _ids(sides, rng, style):
    if style == "two":                      # r_1 .. r_12 in insertion order: string order r_1 < r_10 < r_11 < r_12 < r_2
        return [["r_%d" % (k + 1), "r", l, r] for k, (l, r) in enumerate(sides)]
    return G.assign_ids(sides, rng, style=style)


def bridged(lens, bridges, rng, name_style="abc", id_style="two", mixed=False, view="hyper", kind="bridged-cycles"):
    """lens: cycle lengths (>= 2); bridges[k] in {"fwd","bwd","both"} joins cycle k and k+1."""
    n = sum(lens)
    sp = names(n + (2 if mixed else 0), name_style)
    cx = [[[s, 1]] for s in sp[:n]]
    if mixed:                               # two complexes become sums with a common catalyst / a dimer
        cx[0] = [[sp[0], 1], [sp[n], 1]]
        cx[n - 1] = [[sp[n - 1], 2]]
    cyc = []
    k = 0
    for L in lens:
        cyc.append(list(range(k, k + L)))
        k += L
    sides = []
    for c in cyc:
        for i in range(len(c)):
            sides.append((cx[c[i]], cx[c[(i + 1) % len(c)]]))
    for j, b in enumerate(bridges):
        u = rng.choice(cyc[j])
        v = rng.choice(cyc[j + 1])
        if b in ("fwd", "both"):
            sides.append((cx[u], cx[v]))
        if b in ("bwd", "both"):
            sides.append((cx[v], cx[u]))
    rng.shuffle(sides)
    sides = [([list(x) for x in l], [list(x) for x in r]) for l, r in sides]
    d = dict(kind=kind, rxns=_ids(sides, rng, id_style), iso=[], view=view,
             name="bridged/%s/%s" % ("-".join(map(str, lens)), "-".join(bridges)),
             wr=all(b == "both" for b in bridges))
    if not mixed:
        d["delta"] = 0                      # distinct single-species complexes, connected graph: rank = n - 1
    return d


def bridged_cycles(rng, nrand=30):
    out = []
    for l1 in (2, 3):
        for l2 in (2, 3):
            for b in ("fwd", "bwd", "both"):
                out.append(bridged([l1, l2], [b], rng))
    for bs in (["fwd", "fwd"], ["fwd", "bwd"], ["bwd", "fwd"], ["both", "fwd"], ["both", "both"]):
        out.append(bridged([2, 2, 2], bs, rng, name_style="num"))
    out.append(bridged([3, 4, 3], ["fwd", "both"], rng, name_style="num"))          # 10 species, 13 reactions
    out.append(bridged([4, 4, 4], ["both", "both"], rng, name_style="s3"))          # 12 species, 16 reactions
    for _ in range(nrand):
        ncyc = rng.choice([2, 2, 3, 4])
        lens = [rng.choice([2, 2, 3, 4]) for _ in range(ncyc)]
        bs = [rng.choice(["fwd", "bwd", "both", "both"]) for _ in range(ncyc - 1)]
        out.append(bridged(lens, bs, rng, name_style=rng.choice(["abc", "num", "s3", "mix"]),
                           id_style=rng.choice(["two", "gen", "num"]), mixed=rng.random() < 0.4,
                           view=rng.choice(["hyper", "hyper", "bip_int", "bip_str"])))
    return out


def big_net(rng, kind="big"):
    ns = rng.randint(10, 13)
    nr = rng.randint(10, 12)
    sp = names(ns, rng.choice(["num", "s3", "mix"]))
    sides = []
    for _ in range(nr):
        z = rng.random()
        if z < 0.3 and sides:
            l0, r0 = rng.choice(sides)
            l, r = r0, l0
        else:
            while True:
                l = sorted((s, rng.randint(1, 2)) for s in rng.sample(sp, rng.choice([0, 1, 1, 2])))
                r = sorted((s, rng.randint(1, 2)) for s in rng.sample(sp, rng.choice([0, 1, 1, 2])))
                if l or r:
                    break
        sides.append((l, r))
    sides = [([list(x) for x in l], [list(x) for x in r]) for l, r in sides]
    return dict(kind=kind, rxns=_ids(sides, rng, rng.choice(["two", "two", "gen", "num"])), iso=[],
                view=rng.choice(["hyper", "hyper", "bip_int", "bip_str"]))


def big_nets(rng, count=40):
    return [big_net(rng) for _ in range(count)]


# ------------------------------------------------------------------ histories

def apply_edits(rxns, edits):
    """The successive reaction lists (insertion order) of a history: step 0 = rxns, step k = after edits[:k]."""
    cur = [list(r) for r in rxns]
    out = [[list(r) for r in cur]]
    for e in edits:
        if e[0] == "del":
            cur = [r for r in cur if r[0] != e[1]]
        elif e[0] == "rmsp":                # CRNHyperGraph.remove_species: species dropped from every side, empty reactions removed
            nxt = []
            for eid, rule, l, r in cur:
                l2 = [x for x in l if x[0] != e[1]]
                r2 = [x for x in r if x[0] != e[1]]
                if l2 or r2:
                    nxt.append([eid, rule, l2, r2])
            cur = nxt
        else:
            cur = cur + [list(e[1])]
        out.append([list(r) for r in cur])
    return out


def _hist(rxns, edits, style, name=None, kind="history"):
    d = dict(kind=kind, rxns=rxns, iso=[], view="hyper", edits=edits, style=style)
    if name:
        d["name"] = name
    return d


def histories(rng, nrand=50):
    out = []
    P = G._parse
    def net(lines):
        return G.net_from_strings(lines, "history")["rxns"]
    for style in (0, 1):
        # A -> 2A -> 3A, knock out 2A -> 3A: one class before and after, class deficiency 1 -> 0
        out.append(_hist(net(["A >> 2 A", "2 A >> 3 A"]), [["del", "r_2"]], style, "history/A-2A-3A/knockout"))
        out.append(_hist(net(["A >> 2 A", "2 A >> 3 A"]), [["del", "r_2"], ["add", ["n_1", "r", P("2 A"), P("3 A")]]], style,
                         "history/A-2A-3A/knockout-restore"))
        # same number of classes, other sizes / ranks
        out.append(_hist(net(["A >> B", "C >> D", "D >> 2 C"]), [["del", "r_3"], ["add", ["n_1", "q", P("B"), P("2 A")]]], style,
                         "history/two-classes"))
        # bridge removed: 1 class -> 2 classes -> 1 class; weak reversibility flips
        out.append(_hist(net(["A <> B", "B >> C", "C <> D"]), [["del", "r_3"], ["add", ["n_1", "r", P("C"), P("B")]],
                                                              ["add", ["n_2", "r", P("B"), P("C")]]], style, "history/bridge"))
        out.append(_hist(net(["A + B <> C", "C >> 2 A"]), [["del", "r_2"], ["del", "r_3"]], style, "history/A+B=C"))
        out.append(_hist(net(["A + B <> C", "C >> 2 A", "B >> 0"]), [["rmsp", "B"], ["rmsp", "A"]], style, "history/remove-species"))
        # same numbers of species / reactions / classes before and after, other rank (a cache keyed on the shape would be stale)
        out.append(_hist(net(["A >> B", "C >> D"]), [["del", "r_2"], ["add", ["n_1", "r", P("C + D"), P("D + C")]]], style,
                         "history/same-shape-other-rank"))
        out.append(_hist(net(["A >> B", "B >> C", "C >> A"]), [["del", "r_3"], ["add", ["n_1", "r", P("C"), P("2 A")]]], style,
                         "history/cycle-broken"))
    pool = [(l, r) for l, r in G.alphabet_reactions()]
    for k in range(nrand):
        nr = rng.randint(2, 5)
        sides = [(G._side(l), G._side(r)) for l, r in rng.sample(pool, nr)]
        rxns = [["r_%d" % (i + 1), rng.choice(G.RULES), l, r] for i, (l, r) in enumerate(sides)]
        alive = [r[0] for r in rxns]
        edits = []
        for j in range(rng.randint(1, 3)):
            cur = apply_edits(rxns, edits)[-1]
            present = sorted({x for _, _, l, r in cur for x, _ in l + r})
            if present and rng.random() < 0.2:
                s_ = rng.choice(present)
                edits.append(["rmsp", s_])
                alive = [r[0] for r in apply_edits(rxns, edits)[-1]]
                continue
            if len(alive) > 1 and rng.random() < 0.6:
                x = rng.choice(alive)
                alive.remove(x)
                edits.append(["del", x])
            else:
                l, r = rng.choice(pool)
                if rng.random() < 0.3:
                    l = tuple((s, c * 2) for s, c in l)
                eid = "n_%d" % (j + 1)
                alive.append(eid)
                edits.append(["add", [eid, rng.choice(G.RULES), G._side(l), G._side(r)]])
        out.append(_hist(rxns, edits, rng.choice([0, 1])))
    return out


# ------------------------------------------------------------------ several classes, ill-conditioned stoichiometry

def multi_class(rng, count=24, kind="multi-class"):
    """Disjoint unions of 2-4 directed cycles (each strongly connected) with, in half of the cases, one class spoiled by an extra
    one-way tail: weak reversibility must be decided PER linkage class (the whole complex graph is never strongly connected)."""
    out = []
    for k in range(count):
        ncyc = rng.choice([2, 2, 3, 4])
        lens = [rng.choice([2, 2, 3]) for _ in range(ncyc)]
        spoil = (k % 2 == 1)
        n = sum(lens) + (1 if spoil else 0)
        sp = names(n, rng.choice(["abc", "num", "mix"]))
        cx = [[[s, 1]] for s in sp]
        sides = []
        pos = 0
        for L in lens:
            c = list(range(pos, pos + L))
            pos += L
            for i in range(L):
                sides.append((cx[c[i]], cx[c[(i + 1) % L]]))
        if spoil:
            sides.append((cx[rng.randrange(pos)], cx[pos]))          # tail into a fresh complex: no way back
        rng.shuffle(sides)
        sides = [([list(x) for x in l], [list(x) for x in r]) for l, r in sides]
        out.append(dict(kind=kind, rxns=_ids(sides, rng, rng.choice(["two", "gen", "adv"])), iso=[],
                        view=rng.choice(["hyper", "hyper", "bip_int", "bip_str"]),
                        name="multi-class/%s%s" % ("-".join(map(str, lens)), "+tail" if spoil else ""),
                        wr=not spoil, delta=0))
    return out


def ill_conditioned(rng, count=24, kind="ill-conditioned"):
    """Stoichiometric matrices with multi-digit entries that are almost, or exactly, rank deficient: unimodular 2x2 blocks
    (a, a+1; a+1, a+2) have a singular value ~ 1/(2a); exact multiples have rank 1.  The deficiency needs the EXACT rank."""
    out = []
    for k in range(count):
        a = rng.choice([12, 99, 250, 700, 2500, 9000])
        exact = (k % 3 == 0)
        if exact:
            c = [[a, a + 1], [2 * a, 2 * a + 2]]
        else:
            c = [[a, a + 1], [a + 1, a + 2]]
        sp = rng.choice([("A", "B", "C"), ("X1", "X10", "X2"), ("P", "Q", "R")])
        p1 = rng.choice([[], [[sp[2], 1]]])
        p2 = ([[sp[2], 2]] if p1 else []) if exact else rng.choice([[], [[sp[2], 1]], [[sp[2], 2]]])
        sides = [([[sp[0], c[0][0]], [sp[1], c[0][1]]], p1), ([[sp[0], c[1][0]], [sp[1], c[1][1]]], p2)]
        if rng.random() < 0.5:
            sides.append((sides[0][1], sides[0][0]))
        rng.shuffle(sides)
        out.append(dict(kind=kind, rxns=_ids(sides, rng, "gen"), iso=[], view=rng.choice(["hyper", "bip_int"])))
    return out
