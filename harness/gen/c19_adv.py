"""C19 adversarial streams (own file of C19).

* bridged cycles: directed cycles joined by one-way / two-way bridges (>= 5 reactions).  With a one-way bridge every complex
  still has in-degree > 0 and out-degree > 0 but the linkage class is NOT strongly connected: separates "weakly reversible"
  from local degree tests.
* big networks: >= 10 species and >= 10 reactions, names / ids with multi-digit suffixes (string order != numeric order).
* histories: ONE analyzer object, the underlying CRNHyperGraph is edited between the calls (reaction removed / added);
  case["edits"] = [["del", id] | ["add", [id, rule, lhs, rhs]] | ["rmsp", species], ...], case["style"] = 0 (compute_crn_deficiency),
  1 (compute_summary + compute_linkage_deficiencies + run_deficiency_one_algorithm) or 2 (compute_summary + run_deficiency_one_algorithm).  Step 0 = the initial network.
"""
from . import c17_nets as G


def names(n, style):
    if style == "num":                      # X1, X10, X11, X2 ... as strings
        return ["X%d" % i for i in range(1, n + 1)]
    if style == "s3":                       # S0, S3, ..., S33: S12 < S3 as strings
        return ["S%d" % (3 * i) for i in range(n)]
    if style == "mix":
        base = ["A", "B", "C", "D", "Ee", "F1", "G_1", "H10", "H2", "a", "b0", "Zz", "k", "m_2", "m_10", "Q"]
        return base[:n]
    return [chr(ord("A") + i) for i in range(n)]


def _ids(sides, rng, style):
    if style == "two":                      # r_1 .. r_12 in insertion order: string order r_1 < r_10 < r_11 < r_12 < r_2
        return [["r_%d" % (k + 1), "r", l, r] for k, (l, r) in enumerate(sides)]
    return G.assign_ids(sides, rng, style=style)


def bridged(lens, bridges, rng, name_style="abc", id_style="two", mixed=False, view="hyper", kind="bridged-cycles"):
    """lens: cycle lengths (>= 2); bridges[k] in {"fwd","bwd","both"} joins cycle k and k+1."""
    n = sum(lens)
    sp = names(n + (2 if mixed else 0), name_style)
    cx = [[[s, 1]] for s in sp[:n]]
    if mixed:                               # two complexes become sums with a common catalyst / a dimer
        cx[0] = [[sp[0], 1], [sp[n], 1]]
        cx[n - 1] = [[sp[n - 1], 2]]
    cyc = []
    k = 0
    for L in lens:
        cyc.append(list(range(k, k + L)))
        k += L
    sides = []
    for c in cyc:
        for i in range(len(c)):
            sides.append((cx[c[i]], cx[c[(i + 1) % len(c)]]))
    for j, b in enumerate(bridges):
        u = rng.choice(cyc[j])
        v = rng.choice(cyc[j + 1])
        if b in ("fwd", "both"):
            sides.append((cx[u], cx[v]))
        if b in ("bwd", "both"):
            sides.append((cx[v], cx[u]))
    rng.shuffle(sides)
    sides = [([list(x) for x in l], [list(x) for x in r]) for l, r in sides]
    d = dict(kind=kind, rxns=_ids(sides, rng, id_style), iso=[], view=view,
             name="bridged/%s/%s" % ("-".join(map(str, lens)), "-".join(bridges)),
             wr=all(b == "both" for b in bridges))
    if not mixed:
        d["delta"] = 0                      # distinct single-species complexes, connected graph: rank = n - 1
    return d


def bridged_cycles(rng, nrand=30):
    out = []
    for l1 in (2, 3):
        for l2 in (2, 3):
            for b in ("fwd", "bwd", "both"):
                out.append(bridged([l1, l2], [b], rng))
    for bs in (["fwd", "fwd"], ["fwd", "bwd"], ["bwd", "fwd"], ["both", "fwd"], ["both", "both"]):
        out.append(bridged([2, 2, 2], bs, rng, name_style="num"))
    out.append(bridged([3, 4, 3], ["fwd", "both"], rng, name_style="num"))          # 10 species, 13 reactions
    out.append(bridged([4, 4, 4], ["both", "both"], rng, name_style="s3"))          # 12 species, 16 reactions
    for _ in range(nrand):
        ncyc = rng.choice([2, 2, 3, 4])
        lens = [rng.choice([2, 2, 3, 4]) for _ in range(ncyc)]
        bs = [rng.choice(["fwd", "bwd", "both", "both"]) for _ in range(ncyc - 1)]
        out.append(bridged(lens, bs, rng, name_style=rng.choice(["abc", "num", "s3", "mix"]),
                           id_style=rng.choice(["two", "gen", "num"]), mixed=rng.random() < 0.4,
                           view=rng.choice(["hyper", "hyper", "bip_int", "bip_str"])))
    return out


def big_net(rng, kind="big"):
    ns = rng.randint(10, 13)
    nr = rng.randint(10, 12)
    sp = names(ns, rng.choice(["num", "s3", "mix"]))
    sides = []
    for _ in range(nr):
        z = rng.random()
        if z < 0.3 and sides:
            l0, r0 = rng.choice(sides)
            l, r = r0, l0
        else:
            while True:
                l = sorted((s, rng.randint(1, 2)) for s in rng.sample(sp, rng.choice([0, 1, 1, 2])))
                r = sorted((s, rng.randint(1, 2)) for s in rng.sample(sp, rng.choice([0, 1, 1, 2])))
                if l or r:
                    break
        sides.append((l, r))
    sides = [([list(x) for x in l], [list(x) for x in r]) for l, r in sides]
    return dict(kind=kind, rxns=_ids(sides, rng, rng.choice(["two", "two", "gen", "num"])), iso=[],
                view=rng.choice(["hyper", "hyper", "bip_int", "bip_str"]))


def big_nets(rng, count=40):
    return [big_net(rng) for _ in range(count)]


# ------------------------------------------------------------------ histories

def _occ(cur):
    return {x for _, _, l, r in cur for x, _ in l + r}


def apply_edits2(rxns, edits, iso0=()):
    """The successive (reaction list in insertion order, species kept without incidence) of a history:
    step 0 = the initial network, step k = after edits[:k].  Mirrors CRNHyperGraph.remove_rxn / add_rxn / remove_species
    (species set: remove_rxn drops the removed reaction's species that lost their last incidence; remove_species with
    prune_orphans=False keeps the species in H.species)."""
    cur = [[r[0], r[1], [list(x) for x in r[2]], [list(x) for x in r[3]]] for r in rxns]
    sp = _occ(cur) | set(iso0)

    def snap():
        return ([[r[0], r[1], [list(x) for x in r[2]], [list(x) for x in r[3]]] for r in cur], sorted(sp - _occ(cur)))

    def remove(eid):
        nonlocal cur, sp
        gone = [r for r in cur if r[0] == eid]
        cur = [r for r in cur if r[0] != eid]
        for _, _, l, r in gone:
            for x, _ in l + r:
                if x not in _occ(cur):
                    sp.discard(x)

    out = [snap()]
    for e in edits:
        if e[0] == "del":
            remove(e[1])
        elif e[0] in ("rmsp", "rmsp0"):     # remove_species(s, prune_orphans = (op == "rmsp"))
            emptied = []
            for r in cur:
                r[2] = [x for x in r[2] if x[0] != e[1]]
                r[3] = [x for x in r[3] if x[0] != e[1]]
                if not r[2] and not r[3]:
                    emptied.append(r[0])
            for eid in emptied:
                remove(eid)
            if e[0] == "rmsp":
                sp.discard(e[1])
        elif e[0] == "repl":                # remove_rxn(id); add_rxn(..., edge_id=id): same id, other content
            remove(e[1][0])
            cur = cur + [[e[1][0], e[1][1], [list(x) for x in e[1][2]], [list(x) for x in e[1][3]]]]
            sp |= _occ(cur)
        elif e[0] == "probe":               # other routes / options on the same object: network unchanged
            pass
        elif e[0] == "coef":                # H.edges[id].reactants[s] = c   (species already on that side)
            for r in cur:
                if r[0] == e[1]:
                    side = r[2] if e[2] == "l" else r[3]
                    for x in side:
                        if x[0] == e[3]:
                            x[1] = e[4]
        else:
            cur = cur + [[e[1][0], e[1][1], [list(x) for x in e[1][2]], [list(x) for x in e[1][3]]]]
            sp |= _occ(cur)
        out.append(snap())
    return out


def apply_edits(rxns, edits):
    return [n for n, _ in apply_edits2(rxns, edits)]


def _hist(rxns, edits, style, name=None, kind="history", view="hyper"):
    d = dict(kind=kind, rxns=rxns, iso=[], view=view, edits=edits, style=style)
    if name:
        d["name"] = name
    return d


def histories(rng, nrand=50):
    out = []
    P = G._parse
    def net(lines):
        return G.net_from_strings(lines, "history")["rxns"]
    for style in (0, 1, 2):
        # A -> 2A -> 3A, knock out 2A -> 3A: one class before and after, class deficiency 1 -> 0
        out.append(_hist(net(["A >> 2 A", "2 A >> 3 A"]), [["del", "r_2"]], style, "history/A-2A-3A/knockout"))
        out.append(_hist(net(["A >> 2 A", "2 A >> 3 A"]), [["del", "r_2"], ["add", ["n_1", "r", P("2 A"), P("3 A")]]], style,
                         "history/A-2A-3A/knockout-restore"))
        # same number of classes, other sizes / ranks
        out.append(_hist(net(["A >> B", "C >> D", "D >> 2 C"]), [["del", "r_3"], ["add", ["n_1", "q", P("B"), P("2 A")]]], style,
                         "history/two-classes"))
        # bridge removed: 1 class -> 2 classes -> 1 class; weak reversibility flips
        out.append(_hist(net(["A <> B", "B >> C", "C <> D"]), [["del", "r_3"], ["add", ["n_1", "r", P("C"), P("B")]],
                                                              ["add", ["n_2", "r", P("B"), P("C")]]], style, "history/bridge"))
        out.append(_hist(net(["A + B <> C", "C >> 2 A"]), [["del", "r_2"], ["del", "r_3"]], style, "history/A+B=C"))
        out.append(_hist(net(["A + B <> C", "C >> 2 A", "B >> 0"]), [["rmsp", "B"], ["rmsp", "A"]], style, "history/remove-species"))
        # same numbers of species / reactions / classes before and after, other rank (a cache keyed on the shape would be stale)
        out.append(_hist(net(["A >> B", "C >> D"]), [["del", "r_2"], ["add", ["n_1", "r", P("C + D"), P("D + C")]]], style,
                         "history/same-shape-other-rank"))
        out.append(_hist(net(["A >> B", "B >> C", "C >> A"]), [["del", "r_3"], ["add", ["n_1", "r", P("C"), P("2 A")]]], style,
                         "history/cycle-broken"))
    pool = [(l, r) for l, r in G.alphabet_reactions()]
    for k in range(nrand):
        nr = rng.randint(2, 5)
        sides = [(G._side(l), G._side(r)) for l, r in rng.sample(pool, nr)]
        rxns = [["r_%d" % (i + 1), rng.choice(G.RULES), l, r] for i, (l, r) in enumerate(sides)]
        alive = [r[0] for r in rxns]
        edits = []
        for j in range(rng.randint(1, 3)):
            cur = apply_edits(rxns, edits)[-1]
            present = sorted({x for _, _, l, r in cur for x, _ in l + r})
            if present and rng.random() < 0.2:
                s_ = rng.choice(present)
                edits.append(["rmsp", s_])
                alive = [r[0] for r in apply_edits(rxns, edits)[-1]]
                continue
            if len(alive) > 1 and rng.random() < 0.6:
                x = rng.choice(alive)
                alive.remove(x)
                edits.append(["del", x])
            else:
                l, r = rng.choice(pool)
                if rng.random() < 0.3:
                    l = tuple((s, c * 2) for s, c in l)
                eid = "n_%d" % (j + 1)
                alive.append(eid)
                edits.append(["add", [eid, rng.choice(G.RULES), G._side(l), G._side(r)]])
        out.append(_hist(rxns, edits, rng.choice([0, 1, 2])))
    return out


# ------------------------------------------------------------------ several classes, ill-conditioned stoichiometry

def multi_class(rng, count=24, kind="multi-class"):
    """Disjoint unions of 2-4 directed cycles (each strongly connected) with, in half of the cases, one class spoiled by an extra
    one-way tail: weak reversibility must be decided PER linkage class (the whole complex graph is never strongly connected)."""
    out = []
    for k in range(count):
        ncyc = rng.choice([2, 2, 3, 4])
        lens = [rng.choice([2, 2, 3]) for _ in range(ncyc)]
        spoil = (k % 2 == 1)
        n = sum(lens) + (1 if spoil else 0)
        sp = names(n, rng.choice(["abc", "num", "mix"]))
        cx = [[[s, 1]] for s in sp]
        sides = []
        pos = 0
        for L in lens:
            c = list(range(pos, pos + L))
            pos += L
            for i in range(L):
                sides.append((cx[c[i]], cx[c[(i + 1) % L]]))
        if spoil:
            sides.append((cx[rng.randrange(pos)], cx[pos]))          # tail into a fresh complex: no way back
        rng.shuffle(sides)
        sides = [([list(x) for x in l], [list(x) for x in r]) for l, r in sides]
        out.append(dict(kind=kind, rxns=_ids(sides, rng, rng.choice(["two", "gen", "adv"])), iso=[],
                        view=rng.choice(["hyper", "hyper", "bip_int", "bip_str"]),
                        name="multi-class/%s%s" % ("-".join(map(str, lens)), "+tail" if spoil else ""),
                        wr=not spoil, delta=0))
    return out


def ill_conditioned(rng, count=24, kind="ill-conditioned"):
    """Stoichiometric matrices with multi-digit entries that are almost, or exactly, rank deficient: unimodular 2x2 blocks
    (a, a+1; a+1, a+2) have a singular value ~ 1/(2a); exact multiples have rank 1.  The deficiency needs the EXACT rank."""
    out = []
    for k in range(count):
        a = rng.choice([12, 99, 250, 700, 2500, 9000])
        exact = (k % 3 == 0)
        if exact:
            c = [[a, a + 1], [2 * a, 2 * a + 2]]
        else:
            c = [[a, a + 1], [a + 1, a + 2]]
        sp = rng.choice([("A", "B", "C"), ("X1", "X10", "X2"), ("P", "Q", "R")])
        p1 = rng.choice([[], [[sp[2], 1]]])
        p2 = ([[sp[2], 2]] if p1 else []) if exact else rng.choice([[], [[sp[2], 1]], [[sp[2], 2]]])
        sides = [([[sp[0], c[0][0]], [sp[1], c[0][1]]], p1), ([[sp[0], c[1][0]], [sp[1], c[1][1]]], p2)]
        if k % 4 == 1:
            # both reactions leave ONE common complex (the zero complex, or one molecule of the third species): a single linkage class
            # whose two difference vectors are almost (or exactly) parallel — the CLASS rank needs the exact arithmetic too
            src = [] if k % 8 == 1 else [[sp[2], 1]]
            sides = [(src, sides[0][0]), (src, sides[1][0])]
        elif rng.random() < 0.5:
            sides.append((sides[0][1], sides[0][0]))
        rng.shuffle(sides)
        out.append(dict(kind=kind, rxns=_ids(sides, rng, "gen"), iso=[], view=rng.choice(["hyper", "bip_int"])))
    return out


def same_shape_histories(rng, nrand=40, kind="history-same-shape"):
    """Histories whose edits keep the set of reaction ids AND the number of species: a reaction replaced under its old id,
    a coefficient edited in place, remove_species(prune_orphans=False).  A cache validated by ids / counts stays 'valid'."""
    out = []
    P = G._parse

    def net(lines):
        return G.net_from_strings(lines, kind)["rxns"]
    for style in (0, 1, 2):
        # cycle A>B>C>A, r_3 replaced by A>C: not weakly reversible any more
        out.append(_hist(net(["A >> B", "B >> C", "C >> A"]), [["repl", ["r_3", "r", P("A"), P("C")]], ["coef", "r_1", "l", "A", 2]],
                         style, "same-shape/cycle-r3-reversed", kind))
        out.append(_hist(net(["A + B >> C", "C >> A + B"]), [["repl", ["r_2", "r", P("C"), P("2 A")]]], style, "same-shape/A+B=C-replace", kind))
        out.append(_hist(net(["A >> 2 A", "2 A >> 3 A"]), [["coef", "r_2", "r", "A", 1], ["coef", "r_2", "r", "A", 2]], style,
                         "same-shape/A-2A-3A-coef", kind))        # 2A>3A -> 2A>A -> 2A>2A (null step)
        out.append(_hist(net(["A + B <> C", "C >> 2 A"]), [["rmsp0", "B"], ["coef", "r_3", "r", "A", 1]], style, "same-shape/orphan-kept", kind))
        out.append(_hist(net(["A <> B", "B >> C", "C <> D"]), [["repl", ["r_3", "q", P("C"), P("B")]], ["repl", ["r_3", "r", P("B"), P("C")]]],
                         style, "same-shape/bridge-flipped", kind))
        for view in ("hyper", "bip_int"):     # non-default options / other routes / caller-side edits between default analyses
            out.append(_hist(net(["A + B <> C", "C >> 2 A"]), [["probe", 0], ["probe", 1], ["probe", 2], ["probe", 3]], style,
                             "same-shape/%s-probes" % view, kind, view=view))
            out.append(_hist(net(["A >> 2 A", "2 A >> 3 A"]), [["probe", 3], ["coef", "r_2", "r", "A", 1], ["probe", 0]], style,
                             "same-shape/%s-probe-edit-probe" % view, kind, view=view))
        # same numbers of complexes, arcs, classes, same class sizes: only the SHAPE of the complex graph changes
        out.append(_hist(net(["A >> B", "C >> B"]), [["repl", ["r_2", "r", P("A"), P("C")]], ["repl", ["r_2", "r", P("C"), P("B")]]], style,
                         "same-shape/regular-flip", kind))                       # one terminal complex -> fork with two -> back
        out.append(_hist(net(["A >> 2 A", "2 A >> 3 A", "B >> C"]), [["repl", ["r_2", "r", P("2 A"), P("A")]], ["repl", ["r_2", "r", P("3 A"), P("2 A")]]],
                         style, "same-shape/ladder-turned", kind))
        out.append(_hist(net(["A + B >> C", "C >> D", "D >> A + B"]), [["repl", ["r_3", "r", P("A + B"), P("D")]], ["coef", "r_1", "l", "A", 2]],
                         style, "same-shape/cycle-to-dag", kind))
        for view in ("hyper", "bip_int", "bip_str"):   # coefficient edits that change the RANK of S (and nothing countable)
            out.append(_hist(net(["A >> B", "2 A >> 2 B"]), [["coef", "r_2", "r", "B", 1], ["coef", "r_2", "r", "B", 2]], style,
                             "same-shape/%s-rank-flip" % view, kind, view=view))
            out.append(_hist(net(["A + B >> C", "2 A + 2 B >> 2 C", "C >> A + B"]), [["coef", "r_2", "l", "B", 3], ["probe", 1], ["coef", "r_2", "l", "B", 2]],
                             style, "same-shape/%s-rank-flip-3" % view, kind, view=view))
        for view in ("bip_int", "bip_str"):   # the INPUT is a bipartite graph object whose coefficients are edited in place
            out.append(_hist(net(["A + B <> C", "C >> 2 A"]), [["coef", "r_3", "r", "A", 1], ["coef", "r_1", "l", "B", 2]], style,
                             "same-shape/%s-coef" % view, kind, view=view))
    pool = [(l, r) for l, r in G.alphabet_reactions()]
    for k in range(nrand):
        nr = rng.randint(2, 5)
        sides = [(G._side(l), G._side(r)) for l, r in rng.sample(pool, nr)]
        rxns = [["r_%d" % (i + 1), rng.choice(G.RULES), l, r] for i, (l, r) in enumerate(sides)]
        view = rng.choice(["hyper", "hyper", "hyper", "bip_int", "bip_str"])
        edits = []
        for j in range(rng.randint(1, 3)):
            cur, _iso = apply_edits2(rxns, edits)[-1]
            if not cur:
                break
            z = rng.random()
            tgt = rng.choice(cur)
            if rng.random() < 0.2:
                edits.append(["probe", rng.randrange(4)])
                continue
            if view != "hyper" or z < 0.4:
                cands = [(sd, x[0]) for sd, side in (("l", tgt[2]), ("r", tgt[3])) for x in side]
                if not cands:
                    continue
                sd, sp_ = rng.choice(cands)
                edits.append(["coef", tgt[0], sd, sp_, rng.choice([1, 2, 3, 12])])
            elif z < 0.8:
                # replacement over the SAME species set where possible (species count unchanged)
                present = sorted(_occ(cur))
                cand = [(l, r) for l, r in pool if {x for x, _ in l + r} <= set(present) | {"A", "B", "C"}]
                l, r = rng.choice(cand)
                edits.append(["repl", [tgt[0], rng.choice(G.RULES), G._side(l), G._side(r)]])
            else:
                present = sorted(_occ(cur))
                edits.append(["rmsp0", rng.choice(present)])
        if edits:
            out.append(_hist(rxns, edits, rng.choice([0, 1, 2]), None, kind, view=view))
    return out


# ------------------------------------------------------------------ degenerate values, API surface, sizes

def degenerate(rng, kind="degenerate-values"):
    """Null steps (reactant complex = product complex), empty sides, single species, duplicate reactions, odd labels,
    very large coefficients, isolated species."""
    out = []
    def add(name, rx, iso=(), view="hyper", **kw):
        rxns = [[eid, rule, [list(x) for x in l], [list(x) for x in r]] for eid, rule, l, r in rx]
        out.append(dict(kind=kind, name="degenerate/" + name, rxns=rxns, iso=list(iso), view=view, **kw))
    A, B, C = [["A", 1]], [["B", 1]], [["C", 1]]
    for view in ("hyper", "bip_int", "bip_str"):
        add("null-step-only/" + view, [["r_1", "r", A, A]], view=view, delta=0, wr=True)
        add("null-step+arc/" + view, [["r_1", "r", A, A], ["r_2", "r", B, C]], view=view, delta=0, wr=False)
        add("null-step-on-used-complex/" + view, [["r_1", "r", A, A], ["r_2", "r", A, B]], view=view, delta=0, wr=False)
        add("two-null-steps/" + view, [["r_1", "r", A, A], ["r_2", "q", [["A", 2]], [["A", 2]]]], view=view, delta=0, wr=True)
        add("null-step-sum/" + view, [["r_1", "r", A + B, B + A], ["r_2", "r", C, A + B]], view=view, wr=False)
        add("inflow-only/" + view, [["r_1", "r", [], A]], view=view, delta=0, wr=False)
        add("outflow-only/" + view, [["r_1", "r", A, []]], view=view, delta=0, wr=False)
        add("in-and-out/" + view, [["r_1", "r", [], A], ["r_2", "r", A, []]], view=view, delta=0, wr=True)
        add("single-species-ladder/" + view, [["r_1", "r", A, [["A", 2]]], ["r_2", "r", [["A", 2]], [["A", 3]]], ["r_3", "r", [["A", 3]], A]],
            view=view, delta=1, wr=True)
        add("duplicate-reactions/" + view, [["r_1", "r", A, B], ["r_2", "r", A, B], ["q_1", "q", A, B]], view=view, delta=0, wr=False)
        add("duplicate+reverse/" + view, [["r_1", "r", A + B, C], ["r_2", "r", A + B, C], ["r_3", "r", C, A + B], ["r_4", "q", C, B + A]],
            view=view, delta=0, wr=True)
        add("odd-labels/" + view, [["r_1", "r", [["0", 1]], [["False", 1]]], ["r_2", "r", [["False", 1]], [["None", 2]]],
                                   ["0", "0", [["None", 2]], [["0", 1], [" ", 1]]]], view=view)
        add("huge-coefficients/" + view, [["r_1", "r", [["A", 1000000]], [["B", 999999]]], ["r_2", "r", [["B", 999999]], [["A", 1000000]]],
                                          ["r_3", "r", [["A", 10]], [["B", 11]]]], view=view, wr=False)
        add("isolated+null/" + view, [["r_1", "r", A, A]], iso=["Z"], view=view, delta=0, wr=True)
        add("catalyst/" + view, [["r_1", "r", A + B, A + C], ["r_2", "r", A + C, A + B]], view=view, delta=0, wr=True)
    return out


API_VARIANTS = ["pos", "kw", "nostoich", "nondeg", "listfn", "staged", "lazy", "twice", "und", "multi", "multidi"]
ENCODINGS = ["pos", "multidi-stoich", "multidi", "multidi-mixed", "und", "multi", "multi-mixed"]


def api_surface(rng, kind="api"):
    """The same networks through every entry route (see _analyze_api in props/C19.py)."""
    base = [t for t in G.textbook() if t["name"].split("/")[1] in
            ("rev-A+B=C", "edelstein", "futile-cycle", "horn-jackson", "open-0>A,0>2A", "triangle")]
    base += [d for d in degenerate(rng) if d["view"] == "hyper" and d["name"].split("/")[1] in
             ("null-step+arc", "duplicate+reverse", "catalyst")]
    out = []
    for b in base:
        for v in API_VARIANTS:
            for view in (("bip_int",) if v in ("und", "multi", "multidi") else ("hyper", "bip_int") if v in ("pos", "staged") else ("hyper",)):
                c = dict(b)
                c.update(kind=kind, api=v, view=view, name="api/%s/%s/%s" % (v, view, b["name"].split("/", 1)[1]))
                out.append(c)
    return out


def large(rng, sizes=(40, 100), kind="large"):
    out = []
    for n in sizes:
        sp = names(n, "num")
        sides = [([[sp[i], 1]], [[sp[i + 1], 1]]) for i in range(n - 1)]
        sides += [([[sp[i + 1], 1]], [[sp[i], 1]]) for i in range(0, n - 1, 7)]
        rxns = [["r_%d" % (k + 1), "r", l, r] for k, (l, r) in enumerate(sides)]
        out.append(dict(kind=kind, name="large/chain-%d" % n, rxns=rxns, iso=[], view="hyper", delta=0, wr=False))
    # >= 10 linkage classes (two-digit class / complex numbers): 12 disjoint arcs, 11 disjoint reversible pairs
    sp = names(24, "num")
    sides = [([[sp[2 * i], 1]], [[sp[2 * i + 1], 1]]) for i in range(12)]
    out.append(dict(kind=kind, name="large/12-classes", rxns=[["r_%d" % (k + 1), "r", l, r] for k, (l, r) in enumerate(sides)],
                    iso=[], view="bip_int", delta=0, wr=False))
    sides = []
    for i in range(11):
        sides += [([[sp[2 * i], 1]], [[sp[2 * i + 1], 2]]), ([[sp[2 * i + 1], 2]], [[sp[2 * i], 1]])]
    out.append(dict(kind=kind, name="large/11-reversible-classes", rxns=[["r_%d" % (k + 1), "r", l, r] for k, (l, r) in enumerate(sides)],
                    iso=[], view="hyper", delta=0, wr=True))
    return out


def encodings(rng, count, kind="encodings"):
    """Every accepted INPUT ENCODING of one network must give one analysis: CRNHyperGraph, DiGraph with stoich, MultiDiGraph with
    stoich, MultiDiGraph with the multiplicities as parallel unit arcs, mixed (c = (c - 1) + 1 on two parallel arcs), undirected
    Graph / MultiGraph, undirected MultiGraph with mixed parallel incidences listed from either end.  Networks with coefficients up
    to 4 (random) and the textbook networks that have a coefficient >= 2."""
    out = []
    nets = [t for t in G.textbook() if any(c >= 2 for _, _, l, r in t["rxns"] for _, c in l + r)]
    P = G._parse
    demo = G.net_from_strings(["2 A >> B", "B >> 2 A", "2 A + C >> D", "D >> B + C"], kind)          # the demo of seeded change C19-w4-1
    demo["name"] = "textbook/w4-1-demo"
    nets = [demo] + nets[:6]
    for k in range(count):
        nets.append(G.random_net(rng, max_s=rng.choice([3, 4, 5]), max_r=rng.choice([2, 3, 4]), maxc=rng.choice([2, 3, 4])))
    for b in nets:
        for v in ENCODINGS:
            c = dict(b)
            c.pop("delta", None)
            c.pop("wr", None)
            c.update(kind=kind, api=v, view="hyper" if v == "pos" and rng.random() < 0.5 else "bip_int",
                     name="enc/%s/%s" % (v, b.get("name", "random").split("/", 1)[-1]))
            out.append(c)
    return out
