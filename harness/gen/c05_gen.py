"""C05 generators: rewritings of a substrate SMILES that keep the molecule (atom order, ring-closure digits,
fragment order), permutations of a template's atom-map numbers, (template, substrate) pair pools.

Everything that touches rdkit / synkit is imported inside functions.  All randomness comes from the `rng`
handed in (random.Random derived from VERIF_SEED).
"""
import re

from . import c03_common as K

# ------------------------------------------------------------------ substrate rewritings

_TOK = re.compile(r"(\[[^\]]*\]|%\d\d|Br|Cl|[A-Za-z*]|\d|.)")


def ring_digit_rewrite(smi, rng):
    """Rename the ring-closure labels: digit d -> %NN with a fresh two-digit number per digit (consistent per fragment
    string, so every opening still meets its closing).  Returns None when the string already uses %NN labels."""
    toks = _TOK.findall(smi)
    if any(t.startswith("%") for t in toks):
        return None
    digits = sorted({t for t in toks if t.isdigit()})
    if not digits:
        return None
    fresh = rng.sample(range(10, 100), len(digits))
    ren = {d: "%%%02d" % f for d, f in zip(digits, fresh)}
    return "".join(ren.get(t, t) if t.isdigit() else t for t in toks)


def fragment_shuffle(smi, rng):
    parts = smi.split(".")
    if len(parts) < 2:
        return None
    q = parts[:]
    for _ in range(4):
        rng.shuffle(q)
        if q != parts:
            break
    return ".".join(q)


def atom_order_rewrite(smi, rng):
    """Chem.RenumberAtoms under a PRNG permutation + MolToSmiles(canonical=False).
    Returns (smiles, perm_written) where perm_written[i] = index (0-based, in the atom order of the molecule parsed from
    `smi`) of the i-th atom of the written string."""
    from rdkit import Chem
    m = Chem.MolFromSmiles(smi)
    if m is None:
        return None
    n = m.GetNumAtoms()
    perm = list(range(n))
    rng.shuffle(perm)
    m2 = Chem.RenumberAtoms(m, perm)          # new atom i = old atom perm[i]
    s = Chem.MolToSmiles(m2, canonical=False)
    order = list(m2.GetPropsAsDict(True, True)["_smilesAtomOutputOrder"])
    return s, [perm[j] for j in order]


def same_molecule(a, b):
    from rdkit import Chem
    ma, mb = Chem.MolFromSmiles(a), Chem.MolFromSmiles(b)
    if ma is None or mb is None:
        return False
    for m in (ma, mb):
        for at in m.GetAtoms():
            at.SetAtomMapNum(0)
    return Chem.MolToSmiles(ma) == Chem.MolToSmiles(mb)


def partial_map_rewrite(smi, rng):
    """the same molecule with atom-map labels on SOME atoms only, chosen so that a label equals (index + 1) of another
    atom (the substrate's atom maps carry no meaning for rule application)"""
    from rdkit import Chem
    m = Chem.MolFromSmiles(smi)
    if m is None or m.GetNumAtoms() < 3:
        return None
    n = m.GetNumAtoms()
    for i in rng.sample(range(n), min(2, n - 1)):
        j = rng.choice([x for x in range(n) if x != i])
        m.GetAtomWithIdx(i).SetAtomMapNum(j + 1)
    return Chem.MolToSmiles(m, canonical=False)


def substrate_variants(smi, rng, k_order=2, digits=True, frags=True):
    """[(kind, smiles)] — every string parses to the molecule of `smi` (checked with RDKit canonical SMILES;
    a rewriting that RDKit itself does not read back as the same molecule is dropped, not reported)."""
    out = []
    for _ in range(k_order):
        r = atom_order_rewrite(smi, rng)
        if r and r[0] != smi:
            out.append(("atom-order", r[0]))
    if digits:
        src = rng.choice([smi] + [s for _, s in out])
        r = ring_digit_rewrite(src, rng)
        if r:
            out.append(("ring-digits", r))
    if frags:
        src = rng.choice([smi] + [s for k, s in out if k == "atom-order"])
        r = fragment_shuffle(src, rng)
        if r:
            out.append(("fragment-order", r))
    if rng.random() < 0.5:
        r = partial_map_rewrite(smi, rng)
        if r:
            out.append(("partial-maps", r))
    seen, res = {smi}, []
    for k, s in out:
        if s in seen or not same_molecule(smi, s):
            continue
        seen.add(s)
        res.append((k, s))
    return res


# ------------------------------------------------------------------ template map permutations

_MAP = re.compile(r":(\d+)\]")


def map_numbers(rsmi):
    return sorted({int(x) for x in _MAP.findall(rsmi)})


def permute_maps(rsmi, rng, how="random"):
    """Rewrite every `:n]` of a mapped reaction SMILES with sigma(n), sigma a permutation of the map numbers in use
    (how = 'random' | 'reverse' | 'shift': reverse and shift are the adversarial ones for tie-breaks by node id)."""
    nums = map_numbers(rsmi)
    if len(nums) < 2:
        return None
    if how == "offset":        # two- and three-digit map numbers, not contiguous
        sig = {n: 97 + 3 * n for n in nums}
        return _MAP.sub(lambda mo: ":%d]" % sig[int(mo.group(1))], rsmi), sig
    if how == "reverse":
        img = nums[::-1]
    elif how == "shift":
        img = nums[1:] + nums[:1]
    else:
        img = nums[:]
        for _ in range(4):
            rng.shuffle(img)
            if img != nums:
                break
    sig = dict(zip(nums, img))
    return _MAP.sub(lambda mo: ":%d]" % sig[int(mo.group(1))], rsmi), sig


def template_variants(rsmi, rng, k=2):
    """k = 1: reverse + one random permutation; k >= 2: reverse, cyclic shift and k - 1 random permutations"""
    out, seen = [], {rsmi}
    hows = [] if not k else (["reverse", rng.choice(["random", "offset"])] if k == 1 else ["reverse", "shift", "offset"] + ["random"] * (k - 1))
    for how in hows:
        r = permute_maps(rsmi, rng, how)
        if r and r[0] not in seen:
            seen.add(r[0])
            out.append((how, r[0]))
    return out


# ------------------------------------------------------------------ hand-made templates (symmetric / multi-component left sides)

HAND = [
    # name, rule, substrates, direction(s), modes
    ("suzuki-bwd", "[CH3:1][Br:2].[BH2:3][CH3:4]>>[CH3:1][CH3:4].[BH2:3][Br:2]", ["CCC(C)C.OB(O)Br", "CCC.BBr", "CC.BrB(O)O"], [True], ["E", "I"]),
    ("suzuki-bwd-small-BBr", "[CH3:3][Br:1].[BH2:2][CH3:4]>>[CH3:3][CH3:4].[BH2:2][Br:1]", ["CCC(C)C.OB(O)Br", "CCCC.BBr"], [True], ["E", "I"]),
    ("suzuki-fwd", "[CH3:1][Br:2].[BH2:3][CH3:4]>>[CH3:1][CH3:4].[BH2:3][Br:2]", ["CBr.CB", "CCBr.CCB", "BrCCBr.CB(O)O"], [False], ["E", "I"]),
    ("metathesis", "[CH2:1]=[CH2:2].[CH2:3]=[CH2:4]>>[CH2:1]=[CH2:3].[CH2:2]=[CH2:4]", ["C=C.C=C", "CC=C.C=CC", "CC=CC.C=C", "C=CC=C"], [False, True], ["I"]),
    ("diels-alder", "[CH2:1]=[CH:2][CH:3]=[CH2:4].[CH2:5]=[CH2:6]>>[CH2:1]1[CH:2]=[CH:3][CH2:4][CH2:5][CH2:6]1", ["C=CC=C.C=C", "C=CC=C.C=CC=C", "CC=CC=C.C=CC"], [False], ["I"]),
    ("diels-alder-retro", "[CH2:1]=[CH:2][CH:3]=[CH2:4].[CH2:5]=[CH2:6]>>[CH2:1]1[CH:2]=[CH:3][CH2:4][CH2:5][CH2:6]1", ["C1=CCCCC1", "CC1C=CCCC1"], [True], ["I"]),
    ("ester-exchange", "[CH3:1][C:2](=[O:3])[O:4][CH3:5].[OH:6][CH3:7]>>[CH3:1][C:2](=[O:3])[O:6][CH3:7].[OH:4][CH3:5]", ["CC(=O)OC.OCC", "COC(=O)CC(=O)OC.OC"], [False, True], ["I"]),
    ("dimerisation", "[CH3:1][SH:2].[CH3:3][SH:4]>>[CH3:1][S:2][S:4][CH3:3]", ["CS.CS", "CCS.CS", "SCCS.CS"], [False], ["I"]),
    ("disulfide-split", "[CH3:1][SH:2].[CH3:3][SH:4]>>[CH3:1][S:2][S:4][CH3:3]", ["CSSC", "CCSSC"], [True], ["I"]),
    ("halogen-exchange", "[CH3:1][Cl:2].[CH3:3][Br:4]>>[CH3:1][Br:4].[CH3:3][Cl:2]", ["CCl.CBr", "ClCCl.BrCBr", "ClCCBr", "ClCCBr.ClCCBr"], [False, True], ["I"]),
    ("sn2-explicit", "[CH3:1][C:2]([H:5])([H:6])[Br:3].[O:4]([H:7])[H:8]>>[CH3:1][C:2]([H:5])([H:6])[O:4][H:8].[Br:3][H:7]", ["CCBr.O", "BrCCCBr.O"], [False], ["E", "I"]),
    ("hydrogenation", "[CH2:1]=[CH2:2].[H:3][H:4]>>[CH2:1]([H:3])[CH2:2][H:4]", ["C=C.[H][H]", "C=CC=C.[H][H]"], [False], ["E", "I"]),
    ("amide-explicit", "[CH3:1][C:2](=[O:3])[Cl:4].[N:5]([H:6])([H:7])[CH3:8]>>[CH3:1][C:2](=[O:3])[N:5]([H:7])[CH3:8].[Cl:4][H:6]", ["CC(=O)Cl.NC", "ClC(=O)CC(=O)Cl.NCCN"], [False], ["E", "I"]),
    ("suzuki-bare", "[C:1][Br:2].[B:3][C:4]>>[C:1][C:4].[B:3][Br:2]", ["CCC(C)C.OB(O)Br", "CCCC.BBr", "CC1CC1.BrB(O)O"], [True], ["I"]),
    ("suzuki-bare-small-BBr", "[C:3][Br:1].[B:2][C:4]>>[C:3][C:4].[B:2][Br:1]", ["CCC(C)C.OB(O)Br"], [True], ["I"]),
    ("metathesis-bare", "[C:1]=[C:2].[C:3]=[C:4]>>[C:1]=[C:3].[C:2]=[C:4]", ["CC=C.C=CC", "CC=CC.C=C", "C=CC=C", "C1=CCC=CC1"], [False], ["I"]),
    ("halogen-exchange-bare", "[C:1][Cl:2].[C:3][Br:4]>>[C:1][Br:4].[C:3][Cl:2]", ["ClCCl.BrCBr", "ClCCBr", "ClCCBr.ClCCBr", "ClC(Cl)Br.BrCC",
                               # exactly ONE component-aware match (C-Cl only in the first molecule), two exhaustive ones: a fallback that asks for
                               # "more than one" primary match instead of "any" shows here
                               "ClCCBr.CBr"], [False, True], ["I"]),
    ("dimerisation-bare", "[C:1][SH:2].[C:3][SH:4]>>[C:1][S:2][S:4][C:3]", ["CCS.CS", "SCCS.CS", "SCC(S)CS"], [False], ["I"]),
    # a charged look-alike in the substrate: the ammonium nitrogen has element and enough hydrogens, only its CHARGE differs from
    # the pattern's amine nitrogen
    ("amidation-bare", "[C:1](=[O:2])[Cl:3].[NH2:4][C:5]>>[C:1](=[O:2])[NH:4][C:5].[ClH:3]", ["CC(=O)Cl.CN", "CC(=O)Cl.C[NH3+].CN"], [False], ["I"]),
    ("aldol-bare", "[C:1](=[O:2])[CH:3].[C:4]=[O:5]>>[C:1](=[O:2])[C:3][C:4][OH:5]", ["CC(=O)C.CC=O", "CC=O.CC=O", "O=CCC=O"], [False], ["I"]),
    # left-hand patterns more symmetric than the rule (the difference is on the product side only) and isomorphic left
    # components with different roles (disproportionation type): numbering / fragment order must not matter
    ("amine-double-abstraction", "[CH2:1][N:2]([CH2:3])[CH2:4].[Cl:5].[Cl:6]>>[CH2:1][N:2]([CH:3])[CH:4].[ClH:5].[ClH:6]",
     ["CCN(C)CCC.[Cl].[Cl]", "CCN(CC)CC.[Cl].[Cl]"], [False], ["I"]),
    ("diol-mono-oxidation", "[CH2:1]([OH:2])[CH2:3][OH:4]>>[CH:1](=[O:2])[CH2:3][OH:4]", ["OCCO", "CC(O)CO", "OCC(O)CO"], [False], ["I"]),
    ("tishchenko-explicit", "[C:1](=[O:2])[H:3].[C:4](=[O:5])[H:6]>>[C:1](=[O:2])[O:5][C:4]([H:3])[H:6]",
     ["CC=O.O=Cc1ccccc1", "CC=O.CCC=O"], [False], ["E"]),
    ("tishchenko-implicit", "[CH:1]=[O:2].[CH:3]=[O:4]>>[C:1](=[O:2])[O:4][CH2:3]", ["CC=O.O=Cc1ccccc1", "CC=O.CCC=O", "O=CCC=O"], [False], ["I"]),
    ("cannizzaro-implicit", "[CH:1]=[O:2].[CH:3]=[O:4].[OH2:5]>>[C:1](=[O:2])[OH:5].[CH2:3][OH:4]", ["CC=O.O=Cc1ccccc1.O", "O=Cc1ccccc1.O=Cc1ccccc1.O"], [False], ["I"]),
    ("radical-disproportionation", "[CH2:1][CH3:2].[CH2:3][CH3:4]>>[CH3:1][CH3:2].[CH2:3]=[CH2:4]", ["[CH2]C.[CH2]CC", "CC.CCC"], [False], ["I"]),
    # a ring of centre atoms closed by a bond that does not change (the pattern lacks it, the substrate has it)
    ("meinwald", "[CH2:1]1[O:2][CH:3]1>>[CH3:1][C:3]=[O:2]", ["C1OC1C", "C1OC1CCOC", "CC1OC1C.COC"], [False], ["I"]),
    ("cyclopropane-opening", "[CH2:1]1[CH2:2][CH:3]1[Br:4]>>[CH2:1]=[CH:2][CH2:3][Br:4]", ["C1CC1Br", "CC1CC1Br"], [False], ["I"]),
    # degenerate rules and substrates: one centre atom, ions, a single atom, nothing changes
    ("deprotonation-1atom", "[OH:1]>>[O-:1]", ["CO", "O", "OCCO", "[Na+].[OH-].CO"], [False], ["I"]),
    ("protonation-1atom", "[NH2:1]>>[NH3+:1]", ["CN", "N", "NCCN.[Cl-]"], [False, True], ["I"]),
    ("identity", "[CH3:1][OH:2]>>[CH3:1][OH:2]", ["CO", "OCCO"], [False], ["I"]),
    # two placements of a two-component pattern on a C2-symmetric substrate that agree orbit by orbit but are different reactions
    ("halohydrin-closure", "[OH:1][C:2].[C:3][Br:4]>>[O:1]([C:2])[C:3].[BrH:4]", ["OCC(Br)C(Br)CO", "OCC(Br)CCO", "OCCBr"], [False], ["I"]),
    # a one-atom pattern component with explicit hydrogens (water) next to substrates that offer the element with fewer hydrogens
    ("hydrolysis-explicit", "[CH3:1][C:2](=[O:3])[O:4][CH3:5].[O:6]([H:7])[H:8]>>[CH3:1][C:2](=[O:3])[O:6][H:8].[CH3:5][O:4][H:7]",
     ["CC(=O)OC.OC", "CC(=O)OC.O", "CC(=O)OC.OO", "CC(=O)OC.O.OC"], [False], ["E"]),
    ("aminolysis-explicit", "[CH3:1][C:2](=[O:3])[Cl:4].[N:5]([H:6])([H:7])[H:8]>>[CH3:1][C:2](=[O:3])[N:5]([H:7])[H:8].[Cl:4][H:6]",
     ["CC(=O)Cl.NC", "CC(=O)Cl.N", "CC(=O)Cl.CNC"], [False], ["E"]),
    # sizes: > 100 atoms, three-digit node ids on the substrate side
    ("long-chains", "[C:1][Br:2].[C:3][I:4]>>[C:1][I:4].[C:3][Br:2]", ["C" * 52 + "Br." + "C" * 50 + "I"], [False], ["I"]),
    ("three-component", "[CH3:1][Br:2].[CH3:3][I:4].[CH3:5][Cl:6]>>[CH3:1][I:4].[CH3:3][Cl:6].[CH3:5][Br:2]", ["CBr.CI.CCl", "CCBr.CCI.CCCl"], [False], ["I"]),
    ("single-symmetric", "[CH3:1][CH2:2][CH3:3]>>[CH3:1][CH:2]=[CH2:3]", ["CCC", "CC(C)C", "CCCC"], [False], ["I"]),
    # several equivalent sites x orientations: 12 embeddings, 3 reactions (the embedding cap is swept on it: THR_RULES in props/C05.py)
    ("bromination-bare", "[C:1]=[C:2].[Br:3][Br:4]>>[C:1]([Br:3])[C:2][Br:4]", ["C=CCC=CCCC=CC.BrBr", "C=CC.BrBr"], [False], ["I"]),
    ("ring-symmetric", "[cH:1]1[cH:2][cH:3][cH:4][cH:5][cH:6]1.[Br:7][Br:8]>>[cH:1]1[cH:2][cH:3][cH:4][cH:5][c:6]1[Br:7].[BrH:8]", ["c1ccccc1.BrBr", "Cc1ccccc1.BrBr"], [False], ["I"]),
]


# more embeddings than the engine's default cap of 5000 (6 x 32 x 32 = 6144): the documented guard empties the result of the
# exhaustive search, whatever the atom order; 6 chemically different C-Br sites, so a search that returned "the first 5000"
# instead would lose a site that depends on the order (thorough tier, oracle only)
MANY = ("many-embeddings", "[C:1][Br:2].[C:3][I:4].[C:5][Cl:6]>>[C:1][I:4].[C:3][Cl:6].[C:5][Br:2]",
        ["BrCC(Br)CC(Br)(C)CC(Br)CCC(Br)CCCCBr." + ".".join(["IC(I)(I)I"] * 8) + "." + ".".join(["ClC(Cl)(Cl)Cl"] * 8)], [False], ["I"])


def hand_pairs(full_all=True):
    """full_all=False (quick tier): the full-ITS form of a hand-made rule only on its first substrate"""
    out = []
    for name, r, subs, dirs, modes in HAND + ([MANY] if full_all else []):
        for inv in dirs:
            for mode in modes:
                for core in ((True,) if name == MANY[0] else (True, False)):
                    for sub in (subs if (core or full_all) else subs[:1]):
                        out.append(dict(kind="hand", name="hand:%s:%s:%s:%s:%s" % (name, "centre" if core else "full", "bwd" if inv else "fwd", mode, sub),
                                        tpl=dict(rsmi=r, core=core), sub=sub, invert=inv, mode=mode, first_sub=subs[0]))
    return out


# ------------------------------------------------------------------ corpus pairs (as in C03)

def own_pair(name, i, core, inv, mode):
    r = K.corpus()[name][i]
    f = K.std_fit(r)
    if not f:
        return None
    a, b = f.split(">>")
    return dict(kind="own-%s" % name, name="%s#%d:%s:%s:%s" % (name, i, "centre" if core else "full", "bwd" if inv else "fwd", mode),
                tpl=dict(rsmi=r, core=core), sub=(b if inv else a), invert=inv, mode=mode)


def foreign_pair(p):
    C = K.corpus()
    name, i, inv, sname, j, sside, mode = p
    r = C[name][i]
    f = K.std_fit(C[sname][j])
    if not f:
        return None
    s = f.split(">>")[sside]
    return dict(kind="foreign-%s" % name, name="%s#%d:centre:%s on %s#%d.%d:%s" % (name, i, "bwd" if inv else "fwd", sname, j, sside, mode),
                tpl=dict(rsmi=r, core=True), sub=s, invert=bool(inv), mode=mode)
