"""C09, string level (round 5): encoders / implementation adapters for model/C09_Strings.v.

RDKit enters the model as ORACLE TABLES computed here by calling RDKit directly (the same RDKit calls the implementation
makes, nothing of SynKit): canon[st][fragment], clean[side], formula[side].  Everything around them - str.split, the filter,
sorted, join, None / ValueError cases, option forwarding, the "[HH]" replacement, the numbering of expand_aam, the pair
enumeration of check_equivariant_graph - is evaluated by the Gallina model and compared with the implementation.
"""


def quiet():
    try:
        from rdkit import RDLogger
        RDLogger.DisableLog("rdApp.*")
    except Exception:
        pass


def ascii_ok(*ss):
    return all(isinstance(s, str) and all(32 <= ord(c) < 127 for c in s) for s in ss)


def cbytes(s):
    """printable ASCII only (callers check ascii_ok): a Coq string literal converted by C09_Strings.sl"""
    return '(sl "%s"%%string)' % s.replace('"', '""')


def copt_bytes(v):
    return "None" if v is None else "(Some %s)" % cbytes(v)


def ctable(d):
    return "[" + "; ".join("(%s, %s)" % (cbytes(k), copt_bytes(v)) for k, v in d.items()) + "]"


# ------------------------------------------------------------------ RDKit oracles (direct calls)

def canon_frag(f, stereo):
    """what filter_valid_molecules + MolToSmiles(isomericSmiles=stereo) give for ONE fragment string; None = filtered out"""
    from rdkit import Chem
    mol = Chem.MolFromSmiles(f, sanitize=False)
    if mol is None:
        return None
    try:
        Chem.SanitizeMol(mol)
    except Exception:
        return None
    return Chem.MolToSmiles(mol, isomericSmiles=stereo)


def clean_side(side):
    """remove_atom_mapping's clean_smiles for ONE side; None = ValueError"""
    from rdkit import Chem
    mol = Chem.MolFromSmiles(side)
    if mol is None:
        return None
    for a in mol.GetAtoms():
        a.SetAtomMapNum(0)
    return Chem.MolToSmiles(mol, canonical=True)


def formula_side(side):
    from rdkit import Chem
    from rdkit.Chem.rdMolDescriptors import CalcMolFormula
    mol = Chem.MolFromSmiles(side)
    if mol is None:
        return None
    return CalcMolFormula(mol)


# ------------------------------------------------------------------ Standardize

def std_strings(case):
    return [case["rsmi"]] + [v for _, v in case.get("variants", [])]


def std_others(case):
    """the `reactions` argument of categorize_reactions used for every string of the case"""
    from synkit.Chem.Reaction.standardize import Standardize
    try:
        base = Standardize.standardize_rsmi(case["rsmi"], stereo=False)
    except ValueError:
        base = None
    return [x for x in (base, case["rsmi"], "C>>C", "C.C>>CC") if isinstance(x, str)]


def std_tables(strings):
    """oracle tables for every piece the model can look up on these strings"""
    clean, c0, c1 = {}, {}, {}
    for s in strings:
        parts = s.split(">>")
        sides = list(parts)
        if len(parts) == 2:
            for p in parts:
                if p not in clean:
                    clean[p] = clean_side(p)
            if clean[parts[0]] is not None and clean[parts[1]] is not None:
                sides += [clean[parts[0]], clean[parts[1]]]
        for side in sides:
            for f in side.split("."):
                if f not in c0:
                    c0[f] = canon_frag(f, False)
                    c1[f] = canon_frag(f, True)
    return clean, c0, c1


def _enc(v):
    """None -> [], "ValueError" -> [-1], str -> [str]"""
    if v is None:
        return []
    if v == "ValueError":
        return [-1]
    return [v]


def std_obs_one(s, others):
    from rdkit import Chem
    from synkit.Chem.Reaction.standardize import Standardize

    def guard(f):
        try:
            return f()
        except ValueError:
            return "ValueError"
    st = Standardize()
    out = [
        _enc(guard(lambda: Standardize().fit(s))),
        _enc(guard(lambda: st.fit(s, remove_aam=True, ignore_stereo=False))),
        _enc(guard(lambda: st.fit(s, remove_aam=False))),
        _enc(guard(lambda: st.fit(s, False, False))),
        _enc(guard(lambda: Standardize.standardize_rsmi(s, stereo=False))),
        _enc(guard(lambda: Standardize.standardize_rsmi(s, True))),
    ]
    rm = guard(lambda: Standardize.remove_atom_mapping(s))
    out.append([] if rm == "ValueError" else [rm])
    # intermediate value of standardize_rsmi: the fragments that survive filter_valid_molecules, in input order, written
    parts = s.split(">>")
    if len(parts) == 2:
        out.append([[Chem.MolToSmiles(m, isomericSmiles=False) for m in Standardize.filter_valid_molecules(p.split("."))] for p in parts])
    else:
        out.append([-1])
    cat = guard(lambda: Standardize.categorize_reactions(list(others), s))
    out.append([-1] if cat == "ValueError" else [list(cat[0]), list(cat[1])])
    return out


def std_impl(case):
    quiet()
    others = std_others(case)
    return [std_obs_one(s, others) for s in std_strings(case)]


def std_term(case):
    quiet()
    ss = std_strings(case)
    others = std_others(case)
    if not ascii_ok(*ss) or not ascii_ok(*others):
        return None
    clean, c0, c1 = std_tables(ss + others)
    if not ascii_ok(*[v for d in (clean, c0, c1) for v in d.values() if v is not None]):
        return None
    oth = "[" + "; ".join(cbytes(o) for o in others) + "]"
    return ("(let cl := %s in let c0 := %s in let c1 := %s in let oth := %s in L [%s])"
            % (ctable(clean), ctable(c0), ctable(c1), oth, "; ".join("run_std cl c0 c1 oth %s" % cbytes(s) for s in ss)))


# ------------------------------------------------------------------ balance, string level

def balstr_impl(case):
    quiet()
    from synkit.Chem.Reaction.balance_check import BalanceReactionCheck
    out = []
    for s in case["rsmis"]:
        try:
            out.append(bool(BalanceReactionCheck.rsmi_balance_check(s)))
        except ValueError:
            out.append(-1)
    return out


def balstr_term(case):
    quiet()
    ss = case["rsmis"]
    if not ascii_ok(*ss):
        return None
    tbl = {}
    for s in ss:
        for p in s.split(">>"):
            if p not in tbl:
                tbl[p] = formula_side(p)
    return "(let fm := %s in L [%s])" % (ctable(tbl), "; ".join("run_bal_str fm %s" % cbytes(s) for s in ss))


# ------------------------------------------------------------------ expand_aam

def expand_input(rsmi):
    """map numbers of all atoms as expand_aam reads them (reactant molecules first), and the number of reactant atoms; None if
    RDKit rejects a fragment or the string is not 'a>>b'"""
    from rdkit import Chem
    parts = rsmi.split(">>")
    if len(parts) != 2:
        return None
    maps, n_r = [], 0
    for k, side in enumerate(parts):
        for f in side.split("."):
            mol = Chem.MolFromSmiles(f, sanitize=False)
            if mol is None:
                return None
            try:
                Chem.SanitizeMol(mol)
            except Exception:
                return None
            for a in mol.GetAtoms():
                maps.append(a.GetAtomMapNum())
            if k == 0:
                n_r += mol.GetNumAtoms()
    return maps, n_r


def expand_impl(rsmi):
    """the map numbers of every atom AFTER expand_aam, per side, in the atom order of the molecules expand_aam parsed
    (the molecules are captured through an instance-level wrapper of CanonRSMI._mol_from_smiles; nothing is patched
    globally) + the maps found in the returned string (as sorted lists)"""
    quiet()
    import re
    from synkit.Chem.Reaction.canon_rsmi import CanonRSMI

    class Rec(CanonRSMI):
        def __init__(self):
            super().__init__()
            self.seen = []

        def _mol_from_smiles(self, smi):
            m = CanonRSMI._mol_from_smiles(smi)
            self.seen.append(m)
            return m
    if rsmi.count(">>") != 1:
        return ["not-a-reaction"]
    c = Rec()
    try:
        out = c.expand_aam(rsmi)
    except Exception as e:
        return ["raises", type(e).__name__]
    n_frag_r = len(rsmi.split(">>")[0].split("."))
    r = [a.GetAtomMapNum() for m in c.seen[:n_frag_r] for a in m.GetAtoms()]
    p = [a.GetAtomMapNum() for m in c.seen[n_frag_r:] for a in m.GetAtoms()]
    a, b = out.split(">>")
    text = [sorted(int(x) for x in re.findall(r":(\d+)\]", a)), sorted(int(x) for x in re.findall(r":(\d+)\]", b))]
    return [r, p, text == [sorted(r), sorted(p)]]


def expand_term(rsmi):
    quiet()
    inp = expand_input(rsmi)
    if inp is None:
        return None
    maps, n_r = inp
    return "(L [run_expand %d%%nat [%s]; I 1])" % (n_r, "; ".join("%d" % m for m in maps))


def expand_obs(rsmi):
    o = expand_impl(rsmi)
    if len(o) != 3:
        return o
    return [[o[0], o[1]], o[2]]


# ------------------------------------------------------------------ check_equivariant_graph

def equiv_graphs(rsmis, method):
    from synkit.IO.chem_converter import rsmi_to_graph
    from synkit.Graph.ITS.its_construction import ITSConstruction
    from synkit.Graph.ITS.its_decompose import get_rc
    gs = []
    for r in rsmis:
        g, h = rsmi_to_graph(rsmi=r, sanitize=True, drop_non_aam=True)
        if g is None or h is None:
            return None
        its = ITSConstruction().ITSGraph(g, h)
        gs.append(get_rc(its) if method == "RC" else its)
    return gs


def equiv_impl(case):
    quiet()
    from synkit.Chem.Reaction.aam_validator import AAMValidator
    gs = equiv_graphs(case["rsmis"], case.get("method", "RC"))
    if gs is None:
        return ["unparsable"]
    pairs, count = AAMValidator.check_equivariant_graph(gs)
    return [[list(p) for p in pairs], count]


def equiv_term(case, pair_lits):
    """pair_lits: per reaction the Gallina literals (G, H) of the parsed sides, or None outside the model"""
    if pair_lits is None or any(p is None for p in pair_lits):
        return None
    f = "get_rc (its_construct %s %s)" if case.get("method", "RC") == "RC" else "its_construct %s %s"
    return "run_equiv [%s]" % "; ".join(f % p for p in pair_lits)


# ------------------------------------------------------------------ BalanceReactionCheck on records (model/C09_Records.v)

def _rec_input(form):
    """JSON form -> the Python value handed to parse_input / dicts_balance_check"""
    if "str" in form:
        return form["str"]
    if "other" in form:
        return form["other"]
    out = []
    for it in form["list"]:
        if isinstance(it, str):
            out.append(it)
        elif isinstance(it, dict) and "dict" in it:
            out.append({k: v for k, v in it["dict"]})
        else:
            out.append(it["other"])
    return out


def _enc_val(v):
    if isinstance(v, bool):
        return [1, v]
    if isinstance(v, str):
        return [0, v]
    return [2, int(v)]


def _enc_rec(d):
    return [[k, _enc_val(v)] for k, v in d.items()]


def records_impl(case):
    quiet()
    from synkit.Chem.Reaction.balance_check import BalanceReactionCheck
    col = case["col"]
    try:
        parsed = [_enc_rec(d) for d in BalanceReactionCheck.parse_input(_rec_input(case["input"]), col)]
    except ValueError:
        parsed = [-1]
    try:
        bal, unb = BalanceReactionCheck(n_jobs=1).dicts_balance_check(_rec_input(case["input"]), col)
        res = [[_enc_rec(d) for d in bal], [_enc_rec(d) for d in unb]]
    except ValueError:
        res = [-1]
    return [parsed, res]


def _cval(v):
    if isinstance(v, bool):
        return "(VB %s)" % ("true" if v else "false")
    if isinstance(v, str):
        return "(VS %s)" % cbytes(v)
    return "(VO (%d))" % int(v)


def records_term(case):
    quiet()
    form, col = case["input"], case["col"]
    strings = [col]
    rsmis = []
    if "str" in form:
        rsmis.append(form["str"])
        inp = "(InStr %s)" % cbytes(form["str"])
    elif "other" in form:
        inp = "InOther"
    else:
        items = []
        for it in form["list"]:
            if isinstance(it, str):
                rsmis.append(it)
                items.append("(IStr %s)" % cbytes(it))
            elif "dict" in it:
                for k, v in it["dict"]:
                    strings.append(k)
                    if isinstance(v, str):
                        strings.append(v)
                        if k == col:
                            rsmis.append(v)
                items.append("(IDict [%s])" % "; ".join("(%s, %s)" % (cbytes(k), _cval(v)) for k, v in it["dict"]))
            else:
                items.append("IOther")
        inp = "(InList [%s])" % "; ".join(items)
    if not ascii_ok(*(strings + rsmis)):
        return None
    tbl = {}
    for s in rsmis:
        for p in s.split(">>"):
            if p not in tbl:
                tbl[p] = formula_side(p)
    return "(run_records %s %s %s)" % (ctable(tbl), inp, cbytes(col))


# ------------------------------------------------------------------ NormalizeAAM.fit, graph-level core (model/C09_Normalize.v)

def normalize_capture(rsmi, fix_aam_indice=True):
    """run NormalizeAAM.fit and capture, INSIDE the call, the graphs rsmi_to_graph returned and the arguments / results of the two
    implicit_hydrogen calls (the two module-level names of normalize_aam are wrapped for the duration of the call and restored)"""
    import copy
    import synkit.Graph.ITS.normalize_aam as M
    rec = dict(graphs=None, ih=[])
    o_r2g, o_ih = M.rsmi_to_graph, M.implicit_hydrogen

    def r2g(*a, **k):
        out = o_r2g(*a, **k)
        rec["graphs"] = copy.deepcopy(out)
        return out

    def ih(g, pres, *a, **k):
        out = o_ih(g, pres, *a, **k)
        rec["ih"].append((list(pres), copy.deepcopy(out)))
        return out
    M.rsmi_to_graph, M.implicit_hydrogen = r2g, ih
    try:
        res = M.NormalizeAAM().fit(rsmi, fix_aam_indice)
    finally:
        M.rsmi_to_graph, M.implicit_hydrogen = o_r2g, o_ih
    return res, rec
