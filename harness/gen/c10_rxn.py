"""C10 — adapters, generators and oracle clauses for the reaction-level wrappers of synkit/IO/chem_converter.py
(rsmi_to_its options, graph_to_rsmi / its_to_rsmi / gml_to_smart up to the molecules handed to RDKit) and for
implicit_hydrogen(reindex=True).  Model: coq/model/C10_Rxn.v.  Imported lazily by harness/props/C10.py.

The wrappers return SMILES strings; what the model computes is the pair of RWMol they hand to RDKit.  The adapter therefore
OBSERVES the real call (it does not re-implement the glue): while the real function runs, `SmiSpy` wraps
chem_converter.graph_to_smi (records that a call was made and its preserve_atom_maps argument) and
GraphToMol.graph_to_mol (records the molecule it returns, built with sanitize=False semantics preserved for the caller).
"""
from ..tok import S


def _half(o):
    v = o * 2
    return int(v)


def rw_obs(rw):
    return [[[[a.GetSymbol(), int(a.GetFormalCharge()), int(a.GetAtomMapNum()),
               [int(a.GetNumExplicitHs())] if a.GetNoImplicit() else []] for a in rw.GetAtoms()],
             S([[min(b.GetBeginAtomIdx(), b.GetEndAtomIdx()), max(b.GetBeginAtomIdx(), b.GetEndAtomIdx()),
                 _half(b.GetBondTypeAsDouble())] for b in rw.GetBonds()])]]


class SmiSpy:
    def __enter__(self):
        import synkit.IO.chem_converter as cc
        from synkit.IO.graph_to_mol import GraphToMol
        self.cc, self.G2M = cc, GraphToMol
        self.o_smi, self.o_g2m = cc.graph_to_smi, GraphToMol.graph_to_mol
        self.calls, self.pres = [], []
        spy = self

        def g2m(obj, graph, ignore_bond_order=False, sanitize=True, use_h_count=False):
            from rdkit import Chem
            m = spy.o_g2m(obj, graph, ignore_bond_order, False, use_h_count)
            if spy.calls:
                spy.calls[-1] = rw_obs(m)
            if sanitize:
                Chem.SanitizeMol(m)
            return m

        def smi(graph, sanitize=True, preserve_atom_maps=None):
            spy.calls.append([])
            spy.pres.append(None if preserve_atom_maps is None else [int(x) for x in preserve_atom_maps])
            return spy.o_smi(graph, sanitize=sanitize, preserve_atom_maps=preserve_atom_maps)
        cc.graph_to_smi = smi
        GraphToMol.graph_to_mol = g2m
        return self

    def __exit__(self, *a):
        self.cc.graph_to_smi = self.o_smi
        self.G2M.graph_to_mol = self.o_g2m
        return False

    def mols(self):
        """the model's option (option wmol * option wmol)"""
        if not self.calls:
            return []
        assert len(self.calls) == 2, self.calls
        return [[self.calls[0], self.calls[1]]]


def spy_call(f, *a, **k):
    with SmiSpy() as s:
        res = f(*a, **k)
    if not s.calls:
        assert res is None, res
    return s


# --------------------------------------------------------------------------------------------------- kind "rxn"

def rxn_obs(rsmi, gr_ord_obs, total_h, gr_obs):
    from synkit.IO.chem_converter import rsmi_to_its, its_to_rsmi, graph_to_rsmi, rsmi_to_graph
    out = []
    for core, eh in ((False, False), (True, False), (False, True), (True, True)):
        out.append(gr_ord_obs(rsmi_to_its(rsmi, core=core, explicit_hydrogen=eh)))
    its = rsmi_to_its(rsmi)
    out.append(total_h(its))
    out.append(total_h(rsmi_to_its(rsmi, explicit_hydrogen=True)))
    for eh in (False, True):
        out.append(spy_call(its_to_rsmi, rsmi_to_its(rsmi), False, eh).mols())
    for eh in (False, True):
        r, p = rsmi_to_graph(rsmi)
        out.append(spy_call(graph_to_rsmi, r, p, None, False, eh).mols())
    # results handed to the caller are the caller's: mutate them, then ask again (a cache that shares mutable results would show)
    from synkit.IO.chem_converter import its_to_gml, gml_to_its
    a = rsmi_to_its(rsmi)
    r0, p0 = rsmi_to_graph(rsmi)
    text = its_to_gml(rsmi_to_its(rsmi))
    b = gml_to_its(text)
    for G in (a, b):
        for n in list(G.nodes)[:1]:
            G.nodes[n]["charge"] = 99
            G.nodes[n]["typesGH"] = (("Xx", False, 9, 9, []), ("Xx", False, 9, 9, []))
            G.remove_node(n)
    r0.clear()
    p0.add_node(10 ** 6, element="Xx")
    out.append(gr_ord_obs(rsmi_to_its(rsmi)))
    out.append(gr_obs(gml_to_its(text)))
    out.append(gr_obs(gml_to_its(its_to_gml(rsmi_to_its(rsmi)))))
    return out


def rxn_clauses(rsmi, total_h, rule_struct, iso_struct, text_to_rec, fail):
    """rsmi_to_its options: making the hydrogens of the ITS explicit keeps every old atom (element, charge, atom_map) and the
    total hydrogen count; the rule exported from the centre that rsmi_to_its(core=True) returns, and from the ITS with explicit
    hydrogens, is equivalent to the rule smart_to_gml writes from the string."""
    from synkit.IO.chem_converter import rsmi_to_its, its_to_gml, smart_to_gml
    fails = []
    I = rsmi_to_its(rsmi)
    E = rsmi_to_its(rsmi, explicit_hydrogen=True)
    if total_h(E) != total_h(I):
        fails.append(fail("H-total", "%r: rsmi_to_its(explicit_hydrogen=True) has %d hydrogens, the ITS %d" % (rsmi[:80], total_h(E), total_h(I))))
    for n, d in I.nodes(data=True):
        e = E.nodes.get(n)
        if e is None or any(e.get(k) != d.get(k) for k in ("element", "charge", "atom_map", "aromatic")):
            fails.append(fail("H-molecule", "%r: atom %r changed by rsmi_to_its(explicit_hydrogen=True): %r -> %r" % (rsmi[:80], n, dict(d), e and dict(e))))
            break
    for n in set(E.nodes) - set(I.nodes):
        if E.nodes[n].get("element") != "H" or E.degree(n) != 1:
            fails.append(fail("H-molecule", "%r: new node %r is not a monovalent hydrogen" % (rsmi[:80], n)))
            break
    # a result handed to the caller and mutated by the caller must not change the next answer
    def snap(G):
        return (sorted((n, repr(sorted(d.items(), key=lambda kv: kv[0]))) for n, d in G.nodes(data=True)),
                sorted((min(u, v), max(u, v), repr(sorted(d.items()))) for u, v, d in G.edges(data=True)))
    want = snap(I)
    a = rsmi_to_its(rsmi)
    for n in list(a.nodes)[:1]:
        a.nodes[n]["charge"] = 99
        a.remove_node(n)
    if snap(rsmi_to_its(rsmi)) != want:
        fails.append(fail("no-hidden-state", "%r: rsmi_to_its gives another ITS after the caller edited an earlier result" % rsmi[:80]))
    if sorted(I.nodes) and all(d["typesGH"][0][0] == d["typesGH"][1][0] for _, d in I.nodes(data=True)):
        ra = text_to_rec(smart_to_gml(rsmi, core=True))
        for nm, X in (("rsmi_to_its(core=True)", rsmi_to_its(rsmi, core=True)), ("rsmi_to_its(explicit_hydrogen=True)", E),
                      ("rsmi_to_its(core=True, explicit_hydrogen=True)", rsmi_to_its(rsmi, core=True, explicit_hydrogen=True))):
            for reindex in (False, True):
                rb = text_to_rec(its_to_gml(X, core=True, reindex=reindex))
                if ra is None or rb is None or not iso_struct(rule_struct(ra), rule_struct(rb)):
                    fails.append(fail("gml-two-routes", "%r: its_to_gml(%s, core=True, reindex=%s) is not equivalent to smart_to_gml" % (rsmi[:80], nm, reindex)))
    return fails[:4]


EXPLICIT_H_RXNS = [
    "[CH3:1][O:2][H:3].[Na:4][H:5]>>[CH3:1][O-:2].[Na+:4].[H:3][H:5]",
    "[CH2:1]=[CH2:2].[H:3][H:4]>>[H:3][CH2:1][CH2:2][H:4]",
    "[CH3:1][C:2](=[O:3])[O:4][H:5].[NH3:6]>>[CH3:1][C:2](=[O:3])[O-:4].[NH3+:6][H:5]",
    "[H:1][H:2].[OH:3][OH:4]>>[H:1][OH:3].[H:2][OH:4]",
    "[H+:1].[OH-:2]>>[H:1][OH:2]",
    "[CH3:10][CH2:11][Br:12].[OH-:13]>>[CH3:10][CH2:11][OH:13].[Br-:12]",
    "[cH:1]1[cH:2][cH:3][cH:4][cH:5][c:6]1[H:7].[Cl:8][Cl:9]>>[cH:1]1[cH:2][cH:3][cH:4][cH:5][c:6]1[Cl:8].[H:7][Cl:9]",
]


# --------------------------------------------------------------------------------------------------- kind "itsrsmi"

def itsrsmi_obs(G):
    from synkit.IO.chem_converter import its_to_rsmi
    out = []
    pres = []
    for eh in (False, True):
        s = spy_call(its_to_rsmi, G.copy(), False, eh)
        out.append(s.mols())
        if not eh:
            pres = [] if not s.pres else [s.pres[0] if s.pres[0] is not None else []]
    out.append(pres)
    return out


def rand_its_h(rng, rand_its):
    """a consistent synthetic ITS with hydrogens among the atoms; sometimes a hydrogen loses its atom_map key"""
    g = rand_its(rng, rng.randint(1, 6), ["C", "N", "O", "H", "H", "H", "Cl", "*"])
    for n, a in g["nodes"]:
        if a["element"] == "H":
            a["hcount"] = 0
            a["typesGH"][0][2] = 0
            a["typesGH"][1][2] = 0
            if rng.random() < 0.06:
                del a["atom_map"]
    return g


# --------------------------------------------------------------------------------------------------- kind "gmlsmart"

VALID_LABELS = ["C", "N+", "O-", "Cl", "Fe3+", "S2-", "*", "Na+", "H", "H", "H+", "Mg12+", "O2-", "C-", "N"]


def rand_record_valid(rng):
    """a record whose node labels are element symbols RDKit knows; edges may mention ids no node entry declares"""
    rec = []
    ids = list(range(rng.choice([0, 1, 1]), rng.randint(2, 6)))
    for s in (0, 1, 2):
        es = []
        for _ in range(rng.randint(0, 5)):
            if rng.random() < 0.55:
                es.append([0, rng.choice(ids), rng.choice(VALID_LABELS)])
            else:
                u = rng.choice(ids)
                v = rng.choice([x for x in ids + [9] if x != u] if rng.random() < 0.97 else [u])
                es.append([1, u, v, rng.choice(["-", "=", "#", ":", "-", "~"])])
        rec.append([s, es])
    return rec


def gmlsmart_obs(text):
    from synkit.IO.chem_converter import gml_to_smart
    out = []
    for eh in (False, True):
        try:
            out.append(spy_call(gml_to_smart, text, False, eh).mols())
        except ValueError as e:
            if "unpack" not in str(e):
                raise
            return [-1]
    return out


# --------------------------------------------------------------------------------------------------- kind "imph"

def imph_obs(G, preserve, gr_ord_obs):
    from synkit.Graph.Hyrogen._misc import implicit_hydrogen
    out = []
    for reindex in (False, True):
        before = gr_ord_obs(G)
        try:
            out.append([gr_ord_obs(implicit_hydrogen(G, set(preserve), reindex))])
        except KeyError:
            out.append([])
        if gr_ord_obs(G) != before:
            out.append("MUTATED-INPUT")
    return out


def imph_clauses(G, preserve, tag, total_h, fail):
    """implicit_hydrogen on a molecule-like graph in which every hydrogen has exactly one heavy neighbour and every key is
    present: the total hydrogen count is kept, heavy atoms keep element / charge; reindex=True renumbers 1..n in node order,
    sets atom_map = id and changes nothing else."""
    from synkit.Graph.Hyrogen._misc import implicit_hydrogen
    for n, d in G.nodes(data=True):
        if "element" not in d or "hcount" not in d or "atom_map" not in d or (d.get("hcount") or 0) < 0:
            return []
        if d["element"] == "H":
            hv = [m for m in G.neighbors(n) if G.nodes[m].get("element") != "H"]
            if len(hv) != 1 or d["hcount"] != 0:
                return []
    fails = []
    A = implicit_hydrogen(G, set(preserve), False)
    B = implicit_hydrogen(G, set(preserve), True)
    if total_h(A) != total_h(G):
        fails.append(fail("implicit_hydrogen-total", "%s: total hydrogen count %d -> %d (preserve=%r)" % (tag, total_h(G), total_h(A), preserve)))
    kept = [n for n, d in G.nodes(data=True) if d["element"] != "H" or d["atom_map"] in set(preserve)]
    if list(A.nodes()) != kept:
        fails.append(fail("implicit_hydrogen-atoms", "%s: atoms kept %r, expected %r" % (tag, list(A.nodes()), kept)))
    if list(B.nodes()) != list(range(1, len(kept) + 1)) or any(d.get("atom_map") != n for n, d in B.nodes(data=True)):
        fails.append(fail("implicit_hydrogen-reindex", "%s: reindex=True does not number the atoms 1..n with atom_map = id" % tag))
    else:
        m = {a: i + 1 for i, a in enumerate(A.nodes())}
        sa = sorted((m[n], d.get("element"), d.get("hcount"), d.get("charge")) for n, d in A.nodes(data=True))
        sb = sorted((n, d.get("element"), d.get("hcount"), d.get("charge")) for n, d in B.nodes(data=True))
        ea = sorted((min(m[u], m[v]), max(m[u], m[v]), d.get("order")) for u, v, d in A.edges(data=True))
        eb = sorted((min(u, v), max(u, v), d.get("order")) for u, v, d in B.edges(data=True))
        if sa != sb or ea != eb:
            fails.append(fail("implicit_hydrogen-reindex", "%s: reindex=True changes more than the numbering" % tag))
    return fails


# --------------------------------------------------------------------------------------------------- NXToGML.transform, last intermediate state

class RuleSpy:
    """records what NXToGML.transform hands to NXToGML._rule_grammar: (L, R, K, changed_node_ids) after h_to_explicit of the
    context and after the reindex relabelling"""

    def __init__(self, gr_ord_obs):
        self.obs = gr_ord_obs

    def __enter__(self):
        from synkit.IO.nx_to_gml import NXToGML
        self.cls = NXToGML
        self.orig = NXToGML.__dict__["_rule_grammar"]
        f = self.orig.__func__
        self.seen = []
        spy = self

        def g(L, R, K, rule_name, changed_node_ids, explicit_hydrogen):
            spy.seen.append([spy.obs(L), spy.obs(R), spy.obs(K), [int(x) for x in changed_node_ids]])
            return f(L, R, K, rule_name, changed_node_ids, explicit_hydrogen)
        NXToGML._rule_grammar = staticmethod(g)
        return self

    def __exit__(self, *a):
        self.cls._rule_grammar = self.orig
        return False

    def mid(self):
        assert len(self.seen) == 1, len(self.seen)
        return self.seen[0]
