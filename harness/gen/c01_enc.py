"""C01/C02 shared encoders: JSON graphs <-> networkx, Gallina literals of model/C01_Model.v datatypes,
observables of ITS / molecule graphs, synthetic generators.

JSON molecule graph:  {"nodes": [[id, {"element","aromatic","hcount","charge","neighbors"?, "atom_map"}], ...],
                       "edges": [[u, v, {"order": 1|1.5|2|...}], ...]}      (insertion order = networkx order)
JSON ITS graph:       nodes carry element, charge, atom_map, typesGH=[[el,arom,hc,ch,nb],[...]] and optionally
                      aromatic/hcount/neighbors; edges carry order=[a,b], standard_order.
"""
from ..tok import S

NODE_KEYS = ("element", "aromatic", "hcount", "charge", "atom_map")


# ------------------------------------------------------------------ interning (fixed, seed independent, injective)

def elem_code(s):
    """"*" -> 0, "" -> 1, "H" -> 2 (model/C01_Model.v EL_STAR, EL_EMPTY, EL_H); any other string -> 3 + its bytes
    read as a base-256 number (injective: no leading NUL bytes in element symbols)."""
    if not isinstance(s, str):
        raise TypeError("element is not a string: %r" % (s,))
    if s == "*":
        return 0
    if s == "":
        return 1
    if s == "H":
        return 2
    return 3 + int.from_bytes(s.encode(), "big")


def half(o):
    v = o * 2
    if isinstance(v, bool) or v != int(v):
        raise ValueError("order %r is not a half-integer" % (o,))
    return int(v)


def _int(x):
    if isinstance(x, bool) or not isinstance(x, int):
        if isinstance(x, float) and x == int(x):
            return int(x)
        raise TypeError("not an integer: %r" % (x,))
    return x


def _bool(x):
    if not isinstance(x, bool):
        raise TypeError("not a bool: %r" % (x,))
    return x


# ------------------------------------------------------------------ JSON <-> networkx

def to_nx(g):
    import networkx as nx
    G = nx.Graph()
    for n, a in g["nodes"]:
        a = dict(a)
        if "typesGH" in a:
            a["typesGH"] = tuple(tuple(t) for t in a["typesGH"])
        G.add_node(n, **a)
    for u, v, a in g["edges"]:
        a = dict(a)
        if isinstance(a.get("order"), list):
            a["order"] = tuple(a["order"])
        G.add_edge(u, v, **a)
    return G


def _js(v):
    if isinstance(v, (tuple, list)):
        return [_js(x) for x in v]
    if isinstance(v, float) and v == int(v):
        return int(v)
    return v


def from_nx(G):
    return {"nodes": [[n, {k: _js(v) for k, v in d.items()}] for n, d in G.nodes(data=True)],
            "edges": [[u, v, {k: _js(x) for k, x in d.items()}] for u, v, d in G.edges(data=True)]}


# ------------------------------------------------------------------ model domain + Gallina literals

def cN(n):
    if isinstance(n, bool) or not isinstance(n, int) or n < 0:
        raise TypeError("node id is not a natural number: %r" % (n,))
    return "%d%%N" % n


def cZ(z):
    return "(%d)" % _int(z)


def cb(b):
    return "true" if _bool(b) else "false"


def cnb(l):
    return "[" + "; ".join("%d%%N" % elem_code(x) for x in l) + "]"


def coq_gnode(a):
    extra = set(a) - set(NODE_KEYS) - {"neighbors"}
    if extra:
        raise TypeError("attributes outside the model: %r" % sorted(extra))
    nb = "None" if "neighbors" not in a else "(Some %s)" % cnb(a["neighbors"])
    return "(GN %d%%N %s %s %s %s %s)" % (elem_code(a["element"]), cb(a["aromatic"]), cZ(a["hcount"]), cZ(a["charge"]),
                                          nb, cZ(a["atom_map"]))


def coq_mgraph(g):
    """Gallina literal of type mgraph; raises (KeyError/TypeError/ValueError) when outside the model's domain."""
    ns = "; ".join("(%s, %s)" % (cN(n), coq_gnode(a)) for n, a in g["nodes"])
    es = []
    for u, v, a in g["edges"]:
        if set(a) != {"order"}:
            raise TypeError("edge attributes outside the model: %r" % sorted(a))
        es.append("(%s, %s, (%d))" % (cN(u), cN(v), half(a["order"])))
    return "(LG [%s] [%s])" % (ns, "; ".join(es))


def coq_nattr(t):
    el, ar, hc, ch, nb = t
    return "(NA %d%%N %s %s %s %s)" % (elem_code(el), cb(ar), cZ(hc), cZ(ch), cnb(nb))


def coq_inode(a):
    keys = set(a)
    base = {"element", "charge", "atom_map", "typesGH"}
    ext = {"aromatic", "hcount", "neighbors"}
    if not base <= keys or not (keys - base) in (set(), ext):
        raise TypeError("ITS node attributes outside the model: %r" % sorted(keys))
    extra = "None" if not (keys & ext) else "(Some (%s, %s, %s))" % (cb(a["aromatic"]), cZ(a["hcount"]), cnb(a["neighbors"]))
    tg, th = a["typesGH"]
    return "(IN %d%%N %s %s %s %s %s)" % (elem_code(a["element"]), cZ(a["charge"]), cZ(a["atom_map"]), extra,
                                          coq_nattr(tg), coq_nattr(th))


def coq_its(g):
    ns = "; ".join("(%s, %s)" % (cN(n), coq_inode(a)) for n, a in g["nodes"])
    es = []
    for u, v, a in g["edges"]:
        if not set(a) <= {"order", "standard_order", "is_mtg"} or a.get("is_mtg", False) is not False:
            raise TypeError("ITS edge attributes outside the model: %r" % sorted(a))
        oa, ob = a["order"]
        es.append("(%s, %s, IE (%d) (%d) (%d))" % (cN(u), cN(v), half(oa), half(ob), half(a["standard_order"])))
    return "(LG [%s] [%s])" % (ns, "; ".join(es))


# ------------------------------------------------------------------ observables (mirror of tits / tmgraph in C01_Model.v)

def obs_nattr(t):
    if len(t) != 5:
        raise TypeError("typesGH half is not a 5-tuple: %r" % (t,))
    el, ar, hc, ch, nb = t
    return [elem_code(el), _bool(ar), _int(hc), _int(ch), [elem_code(x) for x in nb]]


def obs_its(I):
    """networkx ITS (or reaction centre / context) -> observable; every node/edge attribute key is accounted for:
    an unexpected or missing key makes the observable differ from the model's."""
    ns = []
    for n, d in I.nodes(data=True):
        keys = set(d)
        base = {"element", "charge", "atom_map", "typesGH"}
        ext = {"aromatic", "hcount", "neighbors"}
        odd = sorted((keys - base - ext)) + sorted("missing:" + k for k in base - keys)
        if keys & ext and not ext <= keys:
            odd += sorted("missing:" + k for k in ext - keys)
        row = [n, elem_code(d.get("element", "?")), _int(d.get("charge", -99)), _int(d.get("atom_map", -99)),
               [[_bool(d["aromatic"]), _int(d["hcount"]), [elem_code(x) for x in d["neighbors"]]]] if ext <= keys else [],
               obs_nattr(d["typesGH"][0]) if "typesGH" in d else [], obs_nattr(d["typesGH"][1]) if "typesGH" in d else []]
        if odd:
            row.append(odd)
        ns.append(row)
    es = []
    for u, v, d in I.edges(data=True):
        odd = sorted(set(d) - {"order", "standard_order", "is_mtg"})
        if d.get("is_mtg", False) is not False:
            odd.append("is_mtg=%r" % (d["is_mtg"],))
        oa, ob = d["order"]
        row = [min(u, v), max(u, v), half(oa), half(ob), half(d["standard_order"])]
        if odd:
            row.append(odd)
        es.append(row)
    return [S(ns), S(es)]


def obs_mgraph(G):
    ns = []
    for n, d in G.nodes(data=True):
        odd = sorted(set(d) - set(NODE_KEYS) - {"neighbors"}) + sorted("missing:" + k for k in set(NODE_KEYS) - set(d))
        row = [n, elem_code(d.get("element", "?")), _bool(d.get("aromatic", False)), _int(d.get("hcount", -99)),
               _int(d.get("charge", -99)), [[elem_code(x) for x in d["neighbors"]]] if "neighbors" in d else [],
               _int(d.get("atom_map", -99))]
        if odd:
            row.append(odd)
        ns.append(row)
    es = []
    for u, v, d in G.edges(data=True):
        row = [min(u, v), max(u, v), half(d["order"])]
        odd = sorted(set(d) - {"order"})
        if odd:
            row.append(odd)
        es.append(row)
    return [S(ns), S(es)]


# ------------------------------------------------------------------ synthetic generators

ELEMS2 = ("C", "H")


def mol_node(i, el, hc, ch, arom=False, nb=None, amap=None):
    a = {"element": el, "aromatic": arom, "hcount": hc, "charge": ch, "atom_map": i if amap is None else amap}
    if nb is not None:
        a["neighbors"] = list(nb)
    return a


def mk_side(ids, labels, orders, rng=None, with_nb=True):
    """ids: node ids; labels[i] = (el, hc, ch[, arom]); orders: {(i, j): order} on index pairs (0 = absent).
    Insertion order of nodes/edges and the orientation of every edge are drawn from rng (if given)."""
    idx = list(range(len(ids)))
    pairs = [p for p, o in orders.items() if o]
    if rng is not None:
        rng.shuffle(idx)
        rng.shuffle(pairs)
    nbs = {i: [] for i in range(len(ids))}
    for (i, j), o in orders.items():
        if o:
            nbs[i].append(labels[j][0])
            nbs[j].append(labels[i][0])
    nodes = []
    for i in idx:
        lab = labels[i]
        nodes.append([ids[i], mol_node(ids[i], lab[0], lab[1], lab[2], lab[3] if len(lab) > 3 else False,
                                       sorted(nbs[i]) if with_nb else None)])
    edges = []
    for (i, j) in pairs:
        if rng is not None and rng.random() < 0.5:
            i, j = j, i
        edges.append([ids[i], ids[j], {"order": orders[(i, j)] if (i, j) in orders else orders[(j, i)]}])
    return {"nodes": nodes, "edges": edges}


def size_of(g):
    return len(g["nodes"])


# ------------------------------------------------------------------ options of ITSConstruction.construct (model/C01_Opts.v)
# case["opts"] = {"ia": bool, "bal": bool, "store": bool, "dflt": {attr: value}|None, "api": "ITSGraph"|"construct"}

CORE_DFLT = {"element": "*", "aromatic": False, "hcount": 0, "charge": 0, "neighbors": ["", ""]}


def resolved_defaults(opts):
    """independent reading of _resolve_defaults restricted to the five typesGH attributes"""
    d = dict(CORE_DFLT)
    for k, v in (opts.get("dflt") or {}).items():
        if k in d:
            d[k] = v
    return d


def coq_opts(opts):
    d = resolved_defaults(opts)
    return "(CO %s %s %s)" % (cb(bool(opts.get("ia", False))), cb(bool(opts.get("bal", False))),
                              coq_nattr((d["element"], d["aromatic"], d["hcount"], d["charge"], d["neighbors"])))


def call_construct(G, H, opts):
    """run ITSConstruction with the options of a case (either through the ITSGraph wrapper or construct itself)"""
    from synkit.Graph.ITS.its_construction import ITSConstruction
    kw = dict(ignore_aromaticity=bool(opts.get("ia", False)), balance_its=bool(opts.get("bal", False)),
              store=bool(opts.get("store", False)), attributes_defaults=(dict(opts["dflt"]) if opts.get("dflt") else None))
    if opts.get("api", "ITSGraph") == "construct":
        return ITSConstruction.construct(G, H, **kw)
    return ITSConstruction.ITSGraph(G, H, **kw)


def obs_its_store(I):
    """observable of an ITS built with store=True (mirror of titsS in C01_Opts.v): top-level attributes are (G, H) pairs"""
    ns = []
    for n, d in I.nodes(data=True):
        keys = set(d)
        want = {"element", "aromatic", "hcount", "charge", "neighbors", "atom_map", "typesGH"}
        odd = sorted(keys - want) + sorted("missing:" + k for k in want - keys)
        def pair(k, f):
            v = d.get(k)
            if not isinstance(v, tuple) or len(v) != 2:
                raise TypeError("store=True attribute %s is not a pair: %r" % (k, v))
            return [f(v[0]), f(v[1])]
        row = [n, _int(d.get("atom_map", -99)), pair("element", elem_code), pair("aromatic", _bool), pair("hcount", _int),
               pair("charge", _int), pair("neighbors", lambda l: [elem_code(x) for x in l]),
               obs_nattr(d["typesGH"][0]), obs_nattr(d["typesGH"][1])]
        if odd:
            row.append(odd)
        ns.append(row)
    es = []
    for u, v, d in I.edges(data=True):
        odd = sorted(set(d) - {"order", "standard_order"})
        oa, ob = d["order"]
        row = [min(u, v), max(u, v), half(oa), half(ob), half(d["standard_order"])]
        if odd:
            row.append(odd)
        es.append(row)
    return [S(ns), S(es)]
