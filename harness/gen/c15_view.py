"""C15 round 4 — cached graph views (model: coq/model/C15_View.v `step3`, observed through coq/model/C15_ViewObs.v `run3g`).

case = {"kind": "h3-…", "n": <#networks>, "k": <#caller side objects>, "nb": <#backend slots>, "skip": m, "ops": [op, ...]}
ops: every op of harness/gen/c15_ext.py (the store language), plus
  ["bnew", b, i, include_rule, integer_ids, include_stoich, cls]   backends[b] = cls(nets[i], include_rule=…, integer_ids=…, include_stoich=…)
                                                                  cls in backend | canon | autom | wl   (the three public subclasses)
  ["view", b]                                                     G = backends[b].G
  ["vtype", b]                                                    backends[b].graph_type
A copy INTO slot j re-binds the slot to a new object: the caller's backends for slot j are re-created on it.
Observable of a view access: graph type, whether a NEW graph object was handed out (cache miss), whether the graph
handed out equals a fresh export of the network as it is now, and (round 5) the graph handed out itself — all nodes, arcs, attributes.  The graph handed out is then scribbled on by the caller? No:
the cached object IS the view (documented), so it is left alone.
"""
from ..coqrun import cstr, cnat, cbool, clist
from . import c15_ext as X

ERR = X.ERR
KEY_STALE = "C15:view-stale-after-inplace-coefficient-edit"


def _cls(name):
    if name == "backend":
        from synkit.CRN.Hypergraph.backend import _CRNGraphBackend
        return _CRNGraphBackend
    if name == "canon":
        from synkit.CRN.Topo.canon import CRNCanonicalizer
        return CRNCanonicalizer
    if name == "autom":
        from synkit.CRN.Topo.automorphism import CRNAutomorphism
        return CRNAutomorphism
    if name == "wl":
        from synkit.CRN.Topo.wl_canon import WLCanonicalizer
        return WLCanonicalizer
    raise AssertionError(name)


def _fresh(H, spec):
    from synkit.CRN.Hypergraph.conversion import hypergraph_to_bipartite, hypergraph_to_species_graph
    ir, ii, st = spec
    if ir:
        return hypergraph_to_bipartite(H, integer_ids=ii, include_stoich=st, species_prefix=None, reaction_prefix=None)
    return hypergraph_to_species_graph(H)


def _same_graph(G1, G2):
    return (dict(G1.nodes(data=True)) == dict(G2.nodes(data=True))
            and {(u, v): d for u, v, d in G1.edges(data=True)} == {(u, v): d for u, v, d in G2.edges(data=True)})


class _State:
    def __init__(self, case):
        from synkit.CRN.Hypergraph.hypergraph import CRNHyperGraph
        from synkit.CRN.Hypergraph.rxn import RXNSide
        self.nets = [CRNHyperGraph() for _ in range(case["n"])]
        self.pool = [RXNSide() for _ in range(case.get("k", 0))]
        self.bk = [None] * case.get("nb", 0)       # (object, slot, (ir, ii, st), cls name)
        self.last = [None] * case.get("nb", 0)     # graph object handed out last time

    def make(self, b, i, spec, cls):
        ir, ii, st = spec
        self.bk[b] = (_cls(cls)(self.nets[i], include_rule=ir, integer_ids=ii, include_stoich=st), i, spec, cls)
        self.last[b] = None

    def apply(self, op):
        k = op[0]
        if k == "bnew":
            _, b, i, ir, ii, st, cls = op
            self.make(b, i, (ir, ii, st), cls)
            return None, None
        if k in ("view", "vtype"):
            ent = self.bk[op[1]]
            if ent is None:                       # slot never filled: the model's default backend on net 0
                self.make(op[1], 0, (False, False, False), "backend")
                ent = self.bk[op[1]]
            obj, i, spec, _ = ent
            if k == "vtype":
                had = obj._G
                t = obj.graph_type
                rebuilt = obj._G is not had
                self.last[op[1]] = obj._G
                return None, [t, rebuilt]
            G = obj.G
            rebuilt = G is not self.last[op[1]]
            self.last[op[1]] = G
            # the graph object handed out, in full (every node, arc, attribute): compared with the model's export of the snapshot
            from ..props import C16 as P16
            gobs = P16._bip_obs(G) if spec[0] else P16._sg_obs(G)
            return None, [[obj.graph_type, rebuilt, _same_graph(G, _fresh(self.nets[i], spec))], gobs]
        er, ans = X.apply2(self.nets, self.pool, op)
        if k == "copy" and er is None:
            j = op[2]
            for b, ent in enumerate(self.bk):
                if ent is not None and ent[1] == j:
                    self.make(b, j, ent[2], ent[3])
        return er, ans


def impl3(case):
    st = _State(case)
    out = []
    skip = case.get("skip", 0)
    for t, op in enumerate(case["ops"]):
        er, ans = st.apply(op)
        if t < skip:
            continue
        if op[0] in ("q", "view", "vtype"):
            out.append([ERR[er], ans])
        else:
            out.append([ERR[er], ans, [X.net_obs(H, False) for H in st.nets], [dict(p.to_dict()) for p in st.pool]])
    return out


def op_term3(op):
    k = op[0]
    if k == "bnew":
        _, b, i, ir, ii, st, _ = op
        return "OBackendNew %s %s (VO %s %s %s)" % (cnat(b), cnat(i), cbool(ir), cbool(ii), cbool(st))
    if k == "view":
        return "OView %s" % cnat(op[1])
    if k == "vtype":
        return "OViewType %s" % cnat(op[1])
    return "O2 (%s)" % X.op_term(op)


def coq_case3(case):
    if not X.in_model_domain(dict(case, ops=[o for o in case["ops"] if o[0] not in ("bnew", "view", "vtype")])):
        return None
    return "run3g %s %s %s %s %s" % (cnat(case["n"]), cnat(case.get("k", 0)), cnat(case.get("nb", 0)), cnat(case.get("skip", 0)),
                                   clist([op_term3(o) for o in case["ops"]]))


def oracle3(case):
    """A view handed out always equals a fresh export of the network as it is NOW (the property of a view), graph_type follows
    include_rule; plus the whole store oracle of c15_ext on the store ops (run on the same objects)."""
    # the store part: the reference oracle of the extended language on the store ops alone
    store_ops = [o for o in case["ops"] if o[0] not in ("bnew", "view", "vtype")]
    fails = list(X.oracle2(dict(case, ops=store_ops)))
    st = _State(case)
    edited = [False] * case["n"]          # an in-place coefficient edit since … (per network)
    dirty = [[False] * case["n"] for _ in range(case.get("nb", 0))]     # … the last build of backend b
    quiet = [False] * case.get("nb", 0)   # nothing but reads since the last access of backend b
    for t, op in enumerate(case["ops"]):
        k = op[0]
        before = [X._snapshot(H)[:5] for H in st.nets]
        er, ans = st.apply(op)
        after = [X._snapshot(H)[:5] for H in st.nets]
        for i in range(case["n"]):
            if before[i] != after[i] and k in ("sideset", "sideincr"):
                for row in dirty:
                    row[i] = True
        if k not in ("view", "vtype", "q"):
            quiet = [False] * len(quiet)
        if k == "bnew":
            dirty[op[1]] = [False] * case["n"]
        if k == "view":
            b = op[1]
            obj, i, spec, _ = st.bk[b]
            typ, rebuilt, current = ans[0]
            if typ != ("bipartite" if spec[0] else "species"):
                fails.append(dict(clause="view-type", detail="op %d: graph_type %r for include_rule=%r" % (t, typ, spec[0])))
            if not current:
                if dirty[b][i]:
                    fails.append(dict(clause="view-current", key=KEY_STALE,
                                      detail="op %d: the cached view misses an in-place coefficient edit of a stored side" % t))
                else:
                    fails.append(dict(clause="view-current",
                                      detail="op %d %r: the graph handed out differs from an export of the network as it is now "
                                             "(history %r)" % (t, op, case["ops"][case.get("skip", 0):t + 1])))
            # (that an unchanged network is served from the cache — documented, C15_view_cached — is compared with the model through the
            # `rebuilt` flag; it is a matter of speed, not of the property, so the oracle does not demand it)
            quiet[b] = True
            if rebuilt:
                dirty[b][i] = False
        if k == "vtype":
            b = op[1]
            obj, i, spec, _ = st.bk[b]
            if ans[0] != ("bipartite" if spec[0] else "species"):
                fails.append(dict(clause="view-type", detail="op %d: graph_type %r" % (t, ans[0])))
            quiet[b] = True
            if ans[1]:
                dirty[b][i] = False
        if fails:
            break
    return fails[:3]


# ------------------------------------------------------------------ generators

P = X.P
# no name is both a species and a reaction id here (the backend exports without prefixes: C16's names_ok domain)
PRE3 = [
    ["add", 0, P(("A", 1), ("B", 2)), P(("C", 1)), "r", None],                    # r_1
    ["addany", 0, ["iter", [["l", "C"]]], ["iter", [["l", "A"], ["l", "D"]]], "q", "e1", "kw"],
    ["add", 0, P(("D", 3)), [], "r", None],                                       # r_2, one-sided
    ["add", 0, P(("A", 1), ("E", 1)), P(("B", 1), ("E", 1)), "q", None],           # q_1, catalyst E
    ["molmap", 0, P(("A", 0), ("B", "")), True, False],
    ["add", 1, P(("A", 1)), P(("B", 1)), "", None],
    ["bnew", 0, 0, False, False, True, "backend"],
    ["bnew", 1, 0, True, False, True, "canon"],
    ["bnew", 2, 0, True, True, False, "autom"],
    ["bnew", 3, 1, False, False, True, "wl"],
]
NB = 4


def store_mutators():
    ms = [["add", 0, P(("B", 1)), P(("F", 2)), "r", None], ["add", 0, P(("A", 1)), P(("B", 1)), "r", "r_1"],   # KeyError: no change
          ["add", 0, [], [], "r", None], ["addany", 0, ["map", P(("A", 2))], ["iter", [["l", "G"]]], None, "e2", "pos"],
          ["addfrom", 0, 1, "r_1", "z", None], ["addfrom", 0, 1, "nope", "z", None],
          ["poolnew", 0, [["l", "A"]]], ["pooledit", 0, "A", 4], ["addpool", 0, 0, 0, "r", None],
          ["rmrxn", 0, "r_1"], ["rmrxn", 0, "r_2"], ["rmrxn", 0, "nope"], ["rmrxn", 1, "r_1"],
          ["rmsp", 0, "A", True], ["rmsp", 0, "E", False], ["rmsp", 0, "D", True], ["rmsp", 0, "Z", True], ["rmsp", 0, "B", True, "default"],
          ["merge", 0, 1, True], ["merge", 0, 1, False], ["merge", 1, 0, True, "default"], ["merge", 0, 0, False],
          ["mergeraw", 0, [[None, "r", [["l", "A"]], [["l", "H"]]]], False], ["mergeraw", 0, [["k", "r", [], []]], False], ["mergeraw", 0, [], True],
          ["copy", 0, 1], ["copy", 1, 0], ["copy", 0, 0, "deep"],
          ["mol", 0, "A", "m"], ["mol", 0, "Z", "m"], ["molmap", 0, [], True, True], ["molmap", 0, P(("Z", 1)), True, False],
          ["molmap", 0, P(("Z", 1)), False, False],
          ["q", 0, "len"], ["q", 0, "inc", False, "kw"], ["q", 0, "paths", "A", "D", 4, None, "kw"]]
    return ms


COEF = [["sideset", 0, "r_1", True, "B", 5], ["sideincr", 0, "e1", False, "D", 2], ["sideset", 0, "q_1", True, "E", 3],
        ["sideset", 0, "r_1", True, "B", 2], ["sideset", 0, "nope", True, "B", 5], ["sideset", 0, "r_1", True, "Z", 5]]


def gen_cases3(tier, rng):
    cases = []
    M = store_mutators()
    views = [["view", 0], ["view", 1], ["view", 2], ["view", 3], ["vtype", 1]]
    sk = len(PRE3)
    # every store op between two rounds of all views; and with the first round missing (view built after the edit)
    for m in M:
        cases.append(dict(kind="h3-stale", n=2, k=2, nb=NB, skip=sk, ops=PRE3 + views + [m] + views))
        cases.append(dict(kind="h3-stale", n=2, k=2, nb=NB, skip=sk, ops=PRE3 + [m] + views + views))
    # two edits, views in between and after
    pairs = [(a, b) for a in M for b in M]
    for a, b in rng.sample(pairs, 150 if tier == "quick" else 800):
        cases.append(dict(kind="h3-pairs", n=2, k=2, nb=NB, skip=sk, ops=PRE3 + views[:3] + [a] + views[:2] + [b] + views))
    # coefficient edits that do not change what the view reads (same value / refused / include_stoich=False) stay inside;
    # random store histories with view accesses sprinkled in (no in-place coefficient edits)
    for _ in range(120 if tier == "quick" else 700):
        ops = []
        for _ in range(rng.randint(4, 18)):
            z = rng.random()
            if z < 0.45:
                ops.append(rng.choice(views))
            elif z < 0.5:
                ops.append(["bnew", rng.randrange(NB), rng.randrange(2), rng.random() < 0.5, rng.random() < 0.5, rng.random() < 0.5,
                            rng.choice(["backend", "canon", "autom", "wl"])])
            else:
                ops.append(rng.choice(M))
        cases.append(dict(kind="h3-random", n=2, k=2, nb=NB, skip=sk, ops=PRE3 + ops))
    # a backend created on an EMPTY network, read, then the network grows; backends in unfilled slots
    cases.append(dict(kind="h3-empty", n=2, k=0, nb=2, skip=0,
                      ops=[["bnew", 0, 0, True, False, True, "backend"], ["view", 0], ["view", 1], ["add", 0, P(("A", 1)), P(("B", 1)), "r", None],
                           ["view", 0], ["view", 1], ["vtype", 0], ["rmrxn", 0, "r_1"], ["view", 0], ["view", 1]]))
    # the documented limit (known finding): an in-place coefficient edit through a returned edge is invisible to the
    # version count; only views that do not read coefficients stay current
    for c in COEF[3:]:
        cases.append(dict(kind="h3-coef-inert", n=2, k=2, nb=NB, skip=sk, ops=PRE3 + views + [c] + views))
    cases.append(dict(kind="h3-coef-inert", n=2, k=2, nb=NB, skip=sk, ops=PRE3 + [["view", 2], COEF[0], ["view", 2], COEF[1], ["view", 2]]))
    return cases
