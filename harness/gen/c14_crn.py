"""C14 — SynCRN.build serial vs parallel on the FULL event records (run as `python -m harness.gen.c14_crn`, case as JSON
on stdin, result as JSON on the last stdout line; a fresh non-daemonic interpreter because the check's pool workers may
not start process pools).

case = {"kind":"crn","rules":[rsmi,...],"seeds":[smiles,...],"repeats":int,"max_components":int,"use_frontier":bool,
        "dedup_across_rules":bool,"max_mix":int|None,"max_tasks":int|None,"workers":[k,...]}

Result: {"runs":[[label, record],...], "trace":{...}}   — runs[0] is the serial build.
record = [species, events]  with species = [[node id, key],...] in node order, events = [[node id, step, rule_index, rule_name,
         rule content id, app_index, label ok, [reactant node ids], [product node ids]],...] in node order.
trace  = what the Gallina model needs: species keys ranked by string order, and the table (rule index, reactant keys) ->
         product mixtures (lists of keys, in order; unparsable fragments dropped) observed in the SERIAL run.
"""
import json
import sys


def _mk(case):
    from synkit.CRN.DAG.syncrn import SynCRN
    if case.get("no_rdkit"):
        # the module-level availability flag of syncrn.py: with RDKit missing (Chem None) species keys are the SMILES as written
        from synkit.CRN.DAG import syncrn as _m
        _m.Chem = None
    # the hydrogen / strategy options must reach the worker processes like everything else: varied by the "hopts" cases
    kw = dict(rules=list(case["rules"]), repeats=case["repeats"], explicit_h=case.get("explicit_h", False),
              implicit_temp=case.get("implicit_temp", True),
              max_components=case.get("max_components", 3), use_frontier=case.get("use_frontier", True),
              dedup_across_rules=case.get("dedup_across_rules", False), skip_no_change=case.get("skip_no_change", True),
              allow_empty_side=case.get("allow_empty_side", False), dedup_delta=case.get("dedup_delta", True),
              keep_aam=case.get("keep_aam", True))
    if case.get("max_mix") is not None:
        kw["max_mixtures_per_rule_step"] = case["max_mix"]
    if case.get("max_tasks") is not None:
        kw["max_tasks_per_step"] = case["max_tasks"]
    if case.get("strategy") is not None:
        kw["strategy"] = case["strategy"]
    return SynCRN(**kw)


def _record(case, G):
    rules = list(case["rules"])
    species, events = [], []
    for n, d in G.nodes(data=True):
        if d.get("kind") == "species":
            species.append([n, d["smiles_nomap"]])
        else:
            ri = d["rule_index"]
            rep = d["rule_repr"]
            cid = next((i for i, r in enumerate(rules) if repr(r) == rep), -1)
            ok = d["label"] == "%s@%d@%d" % (d["rule_name"], d["step"], d["app_index"])
            rs = [u for u, _, e in G.in_edges(n, data=True)]
            ps = [v for _, v, e in G.out_edges(n, data=True)]
            attrs_ok = all(e["step"] == d["step"] and e["rule_index"] == ri and e["rxn_id"] == n and e["role"] == "reactant"
                           for _, _, e in G.in_edges(n, data=True)) and \
                all(e["step"] == d["step"] and e["rule_index"] == ri and e["rxn_id"] == n and e["role"] == "product"
                    for _, _, e in G.out_edges(n, data=True))
            events.append([n, d["step"], ri, d["rule_name"], cid, d["app_index"], bool(ok and attrs_ok), rs, ps])
    return [species, events]


def run(case):
    """runs[k] = [label, [record after build call 1, record after build call 2, ...]] — successive build calls on ONE object"""
    calls = case.get("builds") or [list(case["seeds"])]
    runs = []
    trace = None
    for w in [None] + list(case["workers"]):
        crn = _mk(case)
        if w is None:
            log = []
            orig = crn._run_tasks

            def rec(tasks, *, parallel, max_workers, _o=orig, _l=log):
                res = _o(tasks, parallel=parallel, max_workers=max_workers)
                _l.append([[(t[0], list(t[6]), t[2]) for t in tasks], [(r[0], list(r[1]), list(r[2])) for r in res]])
                return res
            crn._run_tasks = rec
            recs = []
            for seeds in calls:
                G = crn.build(list(seeds), parallel=False)
                recs.append(_record(case, G))
            table = []
            keys = set(crn._species_index)
            for tasks, res in log:
                for (ti, tm, _), (ri, rm, prods) in zip(tasks, res):
                    mixes = []
                    for pm in prods:
                        pm = (pm or "").strip()
                        if not pm:
                            mixes.append(None)          # blank mixture: skipped by the integration loop
                            continue
                        ks = []
                        for frag in [s for s in pm.split(".") if s]:
                            std = crn._standardize_smiles(frag)
                            k = crn._canonical_nomap(std) if std is not None else None
                            if k is not None:
                                ks.append(k)
                                keys.add(k)
                        mixes.append(ks)
                    table.append([ti, tm, [m for m in mixes if m is not None], [ri, rm] == [ti, tm]])
            seedkeys = []
            for seeds in calls:
                row = []
                for s in seeds:
                    std = crn._standardize_smiles(s)
                    k = crn._canonical_nomap(std) if std is not None else None
                    if k is not None:
                        keys.add(k)
                    row.append(k)
                seedkeys.append(row)
            trace = dict(keys=sorted(keys), table=table, seeds=seedkeys,
                         arity=[crn._infer_rule_arity(r, i) for i, r in enumerate(crn.rules)],
                         steps=[len(t) for t, _ in log])
            runs.append(["serial", recs])
        else:
            recs = []
            for seeds in calls:
                G = crn.build(list(seeds), parallel=True, max_workers=w)
                recs.append(_record(case, G))
            runs.append(["parallel max_workers=%d" % w, recs])
    return dict(runs=runs, trace=trace)


if __name__ == "__main__":
    import logging
    import warnings
    warnings.filterwarnings("ignore")
    logging.disable(logging.CRITICAL)
    try:
        from rdkit import RDLogger
        RDLogger.DisableLog("rdApp.*")
    except Exception:
        pass
    case = json.loads(sys.stdin.read())
    out = run(case)
    sys.stdout.write("\n" + json.dumps(out, default=str) + "\n")
