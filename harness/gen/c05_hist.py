"""C05 histories: several rule applications run ONE AFTER THE OTHER IN ONE FRESH INTERPRETER on shared objects, every
application's answer recorded.  Used by the metamorphic oracle (harness/props/C05.py): all applications that are the
same (template, substrate, direction, mode, strategy) up to how the inputs are written / which input form and which
result-neutral options are used must give the same set of standardised reactions — wherever they stand in the
sequence, in both orders, and whatever was applied, read or edited before.

A step is a JSON dict
  sub, rsmi             the two writings
  strategy              "all" | "comp" | "bt";  enum=True passes the Strategy member instead of the string
  tpl_form              "graph" (fresh nx graph) | "shared" (ONE nx graph object per rsmi reused by later steps) |
                        "rule" (SynRule object shared per rsmi, forward direction only) | "rsmi" (the string; full ITS only)
  sub_form              "smiles" | "graph" | "syngraph" | "sharedgraph" (one nx graph object per smiles) | "graph0" (node ids from 0)
  ctor                  "init" | "from_smiles"
  opts                  result-neutral constructor options (automorphism, embed_threshold = the default, canonicaliser="shared")
  mutate                after reading: empty the returned ITS graphs and the returned lists in place
  relabel               {old: new}: BEFORE building, renumber the shared template graph object of `relabel_of` in place
  key                   steps with equal key must agree
Everything synkit / rdkit is imported inside functions.
"""
from . import c03_common as K


# partial matching (PartialMatcher engine): its own two "modes" (the reactor's partial=True on top of I / E)
PARTIAL_MODES = {"P": dict(explicit_h=False, implicit_temp=True, partial=True), "Q": dict(partial=True)}


def run_steps(spec):
    import networkx as nx
    import synkit.Synthesis.Reactor.syn_reactor as SR
    from synkit.Synthesis.Reactor.strategy import Strategy
    from synkit.IO.chem_converter import rsmi_to_its, smiles_to_graph
    from synkit.Rule import SynRule
    from synkit.Graph.syn_graph import SynGraph
    from synkit.Graph.canon_graph import GraphCanonicaliser
    K.quiet()
    for k_, cfg_ in PARTIAL_MODES.items():
        K.MODES.setdefault(k_, cfg_)
    mode = spec.get("mode", "E")
    core = bool(spec.get("core", True))
    invert = bool(spec.get("invert", False))
    shared = {}
    canon = GraphCanonicaliser()
    out = []
    for st in spec["steps"]:
        ans = dict(key=st.get("key"))
        try:
            if st.get("relabel"):
                g = shared.get(("tpl", st["relabel_of"]))
                if g is not None:
                    ren = {int(a): int(b) for a, b in st["relabel"].items()}
                    tmp = {a: ("tmp", a) for a in ren}
                    nx.relabel_nodes(g, tmp, copy=False)
                    nx.relabel_nodes(g, {("tmp", a): b for a, b in ren.items()}, copy=False)
                    for n, d in g.nodes(data=True):
                        if "atom_map" in d:
                            d["atom_map"] = n
                    shared[("tpl", st["rsmi"])] = g
            cfg = dict(K.MODES[mode])
            for k, v in (st.get("opts") or {}).items():
                cfg[k] = canon if (k == "canonicaliser" and v == "shared") else v
            form = st.get("tpl_form", "graph")
            if form == "rsmi":
                tpl = st["rsmi"]
            elif form in ("shared", "rule"):
                g = shared.get(("tpl", st["rsmi"]))
                if g is None:
                    g = shared[("tpl", st["rsmi"])] = rsmi_to_its(st["rsmi"], core=core)
                if form == "rule":
                    r = shared.get(("rule", st["rsmi"]))
                    if r is None:
                        r = shared[("rule", st["rsmi"])] = (SynRule(g, canonicaliser=GraphCanonicaliser(), implicit_h=False) if mode in ("I", "P")
                                                            else SynRule(g, canonicaliser=GraphCanonicaliser()))
                    tpl = r
                else:
                    tpl = g
            else:
                tpl = rsmi_to_its(st["rsmi"], core=core)
            sform = st.get("sub_form", "smiles")
            if sform == "smiles":
                sub = st["sub"]
            else:
                if sform == "sharedgraph":
                    sg = shared.get(("sub", st["sub"]))
                    if sg is None:
                        sg = shared[("sub", st["sub"])] = smiles_to_graph(st["sub"], use_index_as_atom_map=False, drop_non_aam=False)
                else:
                    sg = smiles_to_graph(st["sub"], use_index_as_atom_map=False, drop_non_aam=False)
                if sform == "graph0":          # zero-based node ids: the id 0 is falsy
                    sg = nx.relabel_nodes(sg, {x: x - 1 for x in sg.nodes}, copy=True)
                sub = SynGraph(sg, GraphCanonicaliser()) if sform == "syngraph" else sg
            strategy = Strategy.from_string(st["strategy"]) if st.get("enum") else st["strategy"]
            if st.get("ctor") == "from_smiles":
                cfg.pop("embed_pre_filter", None)
                cfg.pop("embed_threshold", None)
                R = SR.SynReactor.from_smiles(sub, tpl, invert=invert, strategy=strategy, **cfg)
            else:
                R = SR.SynReactor(sub, tpl, invert=invert, strategy=strategy, **cfg)
            try:
                a = list(R.smarts_list)
                n1 = R.mapping_count
                b = list(R.smarts_list)
                sm = list(R.smiles_list)
                c = list(R.smarts)
                ni, ni2 = len(R.its_list), len(R.its)
                reads_ok = (a == b == c) and sm == [s.split(">>")[-1] for s in a] and n1 == len(R.mappings) and ni == ni2 \
                    and str(R.substrate_smiles) == str(R.substrate_smiles)
                std = set()
                for s in a:
                    f = K.std_fit(s)
                    if f:
                        std.add(f)
                ans.update(std=sorted(std), reads_ok=bool(reads_ok), nkept=int(n1))
                if st.get("mutate"):
                    for g in R.its_list:
                        g.clear()
                    R.smarts_list.clear()
                    R.mappings.clear()
            except StopIteration:
                ans.update(std=None, reads_ok=True, nkept=-1)
        except Exception as e:
            ans.update(std=["EXC " + type(e).__name__ + ": " + str(e)[:80]], reads_ok=True, nkept=-2)
        out.append(ans)
    return out


def main():
    """entry point of the helper process: JSON spec on stdin -> JSON answers on stdout"""
    import json
    import sys
    spec = json.load(sys.stdin)
    json.dump(run_steps(spec), sys.stdout)


def fresh(spec, timeout=300):
    """run the steps of `spec` in a fresh interpreter"""
    import json
    import subprocess
    import sys
    r = subprocess.run([sys.executable, "-c", "from harness.gen import c05_hist; c05_hist.main()"], input=json.dumps(spec),
                       capture_output=True, text=True, timeout=timeout)
    if r.returncode != 0:
        raise RuntimeError("helper process failed: " + r.stderr[-300:])
    return json.loads(r.stdout)


# A fresh interpreter costs ~0.8 CPU-s of imports (rdkit, networkx, synkit); two per sampled case were a quarter of the CPU time of
# the quick tier.  [fresh_many] keeps ONE helper interpreter per worker process: it imports everything once and then NEVER runs a step
# itself — every history is run in a child forked from it, i.e. from the pristine state of an interpreter that has only imported
# the modules (module-level caches, class attributes, lru_caches are as empty as in a new interpreter), and dies with its state.
_ZYG = {"p": None}
_PRELOAD = ("networkx", "rdkit.Chem", "synkit.Synthesis.Reactor.syn_reactor", "synkit.Synthesis.Reactor.strategy", "synkit.IO.chem_converter",
            "synkit.Rule", "synkit.Graph.syn_graph", "synkit.Graph.canon_graph", "synkit.Chem.Reaction.standardize")


def zygote_main():
    """the persistent helper: one request per line on stdin ({"specs": [...]}) -> one line of answers on stdout"""
    import importlib
    import json
    import os
    import select
    import signal
    import sys
    K.quiet()
    for m in _PRELOAD:
        try:
            importlib.import_module(m)
        except Exception:
            pass
    for line in sys.stdin:
        if not line.strip():
            continue
        req = json.loads(line)
        answers = []
        for spec in req["specs"]:
            r, w = os.pipe()
            pid = os.fork()
            if pid == 0:
                code = 0
                try:
                    os.close(r)
                    data = json.dumps(run_steps(spec))
                except BaseException as e:      # reported to the caller, which fails closed
                    data = json.dumps({"error": type(e).__name__ + ": " + str(e)[:200]})
                    code = 1
                try:
                    with os.fdopen(w, "w") as f:
                        f.write(data)
                finally:
                    os._exit(code)
            os.close(w)
            chunks = []
            deadline = req.get("timeout", 300)
            with os.fdopen(r) as f:
                ok, _, _ = select.select([f], [], [], deadline)
                if ok:
                    chunks.append(f.read())
                else:
                    os.kill(pid, signal.SIGKILL)
            os.waitpid(pid, 0)
            data = "".join(chunks)
            answers.append(json.loads(data) if data else {"error": "no answer from the history process (timeout)"})
        sys.stdout.write(json.dumps(answers) + "\n")
        sys.stdout.flush()


def fresh_many(specs, timeout=300):
    """run each spec in its own process forked from this worker's pristine helper interpreter; falls back to one new
    interpreter per spec when the helper cannot be used"""
    import json
    import select
    import subprocess
    import sys
    try:
        p = _ZYG["p"]
        if p is None or p.poll() is not None:
            p = _ZYG["p"] = subprocess.Popen([sys.executable, "-c", "from harness.gen import c05_hist; c05_hist.zygote_main()"],
                                             stdin=subprocess.PIPE, stdout=subprocess.PIPE, stderr=subprocess.DEVNULL, text=True)
        p.stdin.write(json.dumps({"specs": specs, "timeout": timeout}) + "\n")
        p.stdin.flush()
        ok, _, _ = select.select([p.stdout], [], [], timeout * len(specs) + 60)
        line = p.stdout.readline() if ok else ""
        if not line:
            raise RuntimeError("helper interpreter gave no answer")
        out = json.loads(line)
        if any(isinstance(a, dict) and "error" in a for a in out):
            raise RuntimeError("history process failed: %r" % [a for a in out if isinstance(a, dict)][:1])
        return out
    except BaseException as e:
        # whatever interrupted the exchange (also the per-case CPU budget of harness/main.py, a BaseException raised from a signal
        # handler): the helper may hold an unread answer — it is discarded, never reused
        try:
            if _ZYG["p"] is not None:
                _ZYG["p"].kill()
        except Exception:
            pass
        _ZYG["p"] = None
        if not isinstance(e, Exception):
            raise
        return [fresh(spec, timeout) for spec in specs]


# ------------------------------------------------------------------ building the steps of a case

_FORMS = [dict(), dict(sub_form="graph0"), dict(tpl_form="shared"), dict(sub_form="graph"), dict(tpl_form="rule"), dict(sub_form="syngraph", enum=True),
          dict(tpl_form="shared", sub_form="sharedgraph"), dict(ctor="from_smiles"), dict(tpl_form="rsmi"), dict(enum=True, tpl_form="shared"),
          dict(sub_form="graph0")]
# embed_pre_filter=True is NOT result-neutral (documented guard: it empties the result when the product of the per-node
# candidate counts exceeds threshold * 10000, e.g. a 6-atom pattern on a 67-atom NAD substrate) and is left to C06
_OPTS = [None, dict(automorphism=True), None, dict(embed_threshold=5000), dict(canonicaliser="shared"), None, dict(automorphism=False),
         dict(automorphism=True, canonicaliser="shared")]


def steps_of(case, numberings=(), rng=None):
    """one step per (writing, strategy) of the case, decorated round-robin with input forms and result-neutral options, plus
    the extra template numberings on the base substrate (strategy all), one in-place renumbering of a shared template
    object and one step that empties what it was given back"""
    core = bool(case["tpl"].get("core", True))
    inv = bool(case.get("invert", False))
    steps = []
    k = 0
    vs = case["variants"]
    # every writing under the exhaustive strategy; the other strategies on the base, the last and the second writing
    plan = [(v, "all") for v in vs] + [(vs[0], "comp"), (vs[0], "bt"), (vs[-1], "comp")] + ([(vs[1], "bt")] if len(vs) > 1 else [])
    plan = [(v, stg) for v, stg in plan if stg in case["strategies"]]
    for v, stg in plan:
        if True:
            s = dict(sub=v["sub"], rsmi=v["rsmi"], strategy=stg, key=stg)
            f = dict(_FORMS[k % len(_FORMS)])
            if f.get("tpl_form") == "rule" and inv:
                f["tpl_form"] = "shared"
            if f.get("tpl_form") == "rsmi" and core:
                f["tpl_form"] = "graph"
            if stg != "all":        # the non-default strategies through every constructor / spelling of the option
                f = [dict(ctor="from_smiles"), dict(enum=True, tpl_form="shared"), dict(ctor="from_smiles", enum=True), dict(sub_form="graph")][k % 4]
            if case.get("mode") in PARTIAL_MODES:     # from_smiles has no `partial` parameter; a SynRule input bypasses the reactor's own rule construction
                f.pop("ctor", None)
                if f.get("tpl_form") == "rule":
                    f["tpl_form"] = "shared"
            s.update(f)
            o = _OPTS[(k * 5 + 3) % len(_OPTS)]
            if o and case.get("mode") not in PARTIAL_MODES:     # with partial=True embed_threshold also caps the number of results

                s["opts"] = dict(o)
            if k % 7 == 4:
                s["mutate"] = True
            steps.append(s)
            k += 1
    base = case["variants"][0]
    for r in numberings:
        steps.append(dict(sub=base["sub"], rsmi=r, strategy="all", key="all", tpl_form="shared" if k % 2 else "graph"))
        k += 1
    # in-place renumbering of a shared template object: reverse the map numbers of the base template
    from . import c05_gen as Gn
    nums = Gn.map_numbers(base["rsmi"])
    if len(nums) >= 2:
        import re
        sig = dict(zip(nums, nums[::-1]))
        new = re.sub(r":(\d+)\]", lambda mo: ":%d]" % sig[int(mo.group(1))], base["rsmi"])
        steps.append(dict(sub=base["sub"], rsmi=base["rsmi"], strategy="all", key="all", tpl_form="shared"))
        steps.append(dict(sub=base["sub"], rsmi=new, strategy="all", key="all", tpl_form="shared", relabel={str(a): b for a, b in sig.items()},
                          relabel_of=base["rsmi"]))
        steps.append(dict(sub=base["sub"], rsmi=new, strategy="comp", key="comp", tpl_form="shared"))
    return steps


def spec_of(case, steps):
    return dict(mode=case.get("mode", "E"), core=bool(case["tpl"].get("core", True)), invert=bool(case.get("invert", False)), steps=steps)
