"""C04 — API-surface and HISTORY cases of SynReactor: one case = one short script run in ONE process on SHARED objects;
every step's answer is compared with what a fresh evaluation (fresh reactor, fresh template, fresh substrate) gives.

A script is a list of steps; a step is [kind, arg...]:
  ["read", attr]                 read a lazily computed attribute / derived view of the shared reactor
  ["new", dir, strategy, how]    build a NEW reactor on the shared template / substrate objects and read smarts_list
                                 (dir: "fwd" | "bwd"; how: how the template is handed over, see TEMPLATE_FORMS)
  ["edit", what]                 edit a shared input object in place (no answer; later steps are compared with a fresh
                                 evaluation of the EDITED value)
Everything touching synkit is imported inside functions.
"""
import copy

from . import c03_common as K

ATTRS = ["smarts_list", "smarts", "smiles_list", "its_list", "its", "mappings", "mapping_count", "len_smarts",
         "substrate_smiles", "help", "str"]
TEMPLATE_FORMS = ["graph", "graph-copy", "rule", "string", "from_smiles", "positional", "partial", "prefilter", "threshold",
                  "automorphism"]

SCRIPTS = {
    # (e) repeated reads of lazily computed attributes and of everything derived from them, in different orders
    "reads": [["read", a] for a in ("smarts_list", "len_smarts", "smarts_list", "smiles_list", "smarts_list", "smarts", "help", "smarts_list")],
    "its-first": [["read", a] for a in ("its_list", "mappings", "its_list", "smarts_list", "its", "mapping_count", "smarts_list")],
    "smiles-first": [["read", a] for a in ("smiles_list", "smiles_list", "smarts_list", "substrate_smiles", "str", "smarts_list", "mappings")],
    # (a) shared template / substrate OBJECTS used by several reactors, directions and strategies swapped
    "tpl-reuse": [["new", "fwd", "all", "graph"], ["new", "bwd", "all", "graph"], ["new", "fwd", "comp", "graph"],
                  ["new", "bwd", "bt", "graph"], ["new", "fwd", "all", "graph"]],
    "rule-reuse": [["new", "fwd", "all", "rule"], ["new", "fwd", "bt", "rule"], ["new", "fwd", "all", "rule"]],
    # (c) non-default options / other hand-over forms first, then the defaults (and the reverse)
    "options-then-default": [["new", "fwd", "all", "partial"], ["new", "fwd", "all", "prefilter"], ["new", "fwd", "all", "graph"],
                             ["new", "bwd", "all", "threshold"], ["new", "bwd", "all", "graph"], ["new", "fwd", "all", "string"],
                             ["new", "fwd", "all", "graph"]],
    "forms": [["new", "fwd", "all", "string"], ["new", "bwd", "all", "string"], ["new", "fwd", "all", "from_smiles"],
              ["new", "bwd", "all", "from_smiles"], ["new", "fwd", "comp", "positional"], ["new", "bwd", "bt", "positional"],
              ["new", "fwd", "all", "automorphism"], ["new", "fwd", "all", "graph-copy"]],
    # (b) the shared template object edited in place between reactors (count-preserving edit, then restored)
    "edit-between": [["new", "fwd", "all", "graph"], ["edit", "charge"], ["new", "fwd", "all", "graph"], ["edit", "restore"],
                     ["new", "fwd", "all", "graph"], ["new", "bwd", "all", "graph"]],
}
SCRIPTS["substrate-forms"] = [["new", "fwd", "all", "sub-graph"], ["new", "bwd", "all", "sub-syngraph"], ["new", "fwd", "comp", "sub-syngraph"],
                              ["new", "bwd", "bt", "sub-graph"]]
# the one script that exercises SynRule objects handed over for BACKWARD application
# (one SynRule object -> forwards -> backwards -> forwards -> backwards under another strategy -> forwards: the reactor must not modify
# the template object it is given, and its results must not depend on earlier uses of that object)
SCRIPTS["rule-backward"] = [["new", "fwd", "all", "rule"], ["new", "bwd", "all", "rule"], ["new", "fwd", "all", "rule"],
                            ["new", "bwd", "bt", "rule"], ["new", "fwd", "comp", "rule"]]


def _its_canon(g):
    ns = sorted((n, repr(d.get("typesGH")), repr(d.get("h_pairs"))) for n, d in g.nodes(data=True))
    es = sorted((min(u, v), max(u, v), repr(d.get("order")), repr(d.get("standard_order"))) for u, v, d in g.edges(data=True))
    return [ns, es]


def read_attr(R, attr):
    import io
    import contextlib
    if attr == "smarts_list":
        return list(R.smarts_list)
    if attr == "smarts":
        return list(R.smarts)
    if attr == "smiles_list":
        return list(R.smiles_list)
    if attr == "its_list":
        return [_its_canon(g) for g in R.its_list]
    if attr == "its":
        return [_its_canon(g) for g in R.its]
    if attr == "mappings":
        return [sorted(m.items()) for m in R.mappings]
    if attr == "mapping_count":
        return R.mapping_count
    if attr == "len_smarts":
        return len(R.smarts_list)
    if attr == "substrate_smiles":
        return R.substrate_smiles
    if attr == "str":
        return str(R)
    if attr == "help":
        buf = io.StringIO()
        with contextlib.redirect_stdout(buf):
            R.help(print_results=True)
        return buf.getvalue()
    raise KeyError(attr)


def make_reactor(sub, tpl_form, tplg, rsmi, core, inv, strategy, mode, rule=None):
    """Build a reactor handing the template over in the requested form.  `tplg` = ITS graph object (shared or fresh),
    `rule` = SynRule object (shared or fresh)."""
    from synkit.Synthesis.Reactor.syn_reactor import SynReactor
    cfg = dict(K.MODES[mode])
    if tpl_form == "graph":
        return SynReactor(sub, tplg, invert=inv, strategy=strategy, **cfg)
    if tpl_form == "graph-copy":
        return SynReactor(sub, copy.deepcopy(tplg), invert=inv, strategy=strategy, **cfg)
    if tpl_form == "rule":
        return SynReactor(sub, rule, invert=inv, strategy=strategy, **cfg)
    if tpl_form == "string":          # a reaction string as template = its FULL ITS (rsmi_to_its default)
        return SynReactor(sub, rsmi, invert=inv, strategy=strategy, **cfg)
    if tpl_form == "from_smiles":
        return SynReactor.from_smiles(sub, tplg, invert=inv, strategy=strategy, **cfg)
    if tpl_form == "positional":      # dataclass field order: substrate, template, invert, canonicaliser, explicit_h, implicit_temp, strategy
        return SynReactor(sub, tplg, inv, None, cfg.get("explicit_h", True), cfg.get("implicit_temp", False), strategy)
    if tpl_form in ("sub-graph", "sub-syngraph"):       # the substrate handed over as networkx graph / SynGraph object
        from synkit.IO.chem_converter import smiles_to_graph
        from synkit.Graph.syn_graph import SynGraph
        from synkit.Graph.canon_graph import GraphCanonicaliser
        g = sub if not isinstance(sub, str) else smiles_to_graph(sub, use_index_as_atom_map=False, drop_non_aam=False)
        obj = g if tpl_form == "sub-graph" else SynGraph(g, GraphCanonicaliser())
        return SynReactor(obj, tplg, invert=inv, strategy=strategy, **cfg)
    if tpl_form == "partial":
        return SynReactor(sub, tplg, invert=inv, strategy=strategy, partial=True, **cfg)
    if tpl_form == "prefilter":
        return SynReactor(sub, tplg, invert=inv, strategy=strategy, embed_pre_filter=True, **cfg)
    if tpl_form == "threshold":
        return SynReactor(sub, tplg, invert=inv, strategy=strategy, embed_threshold=100000, **cfg)
    if tpl_form == "automorphism":
        return SynReactor(sub, tplg, invert=inv, strategy=strategy, automorphism=True, **cfg)
    raise KeyError(tpl_form)


def _edit(tplg, what, saved):
    """count-preserving in-place edit of the shared template graph: flip the product-side charge of its first node"""
    n = sorted(tplg.nodes)[0]
    if what == "charge":
        t0, t1 = tplg.nodes[n]["typesGH"]
        saved["t"] = (t0, t1)
        tplg.nodes[n]["typesGH"] = (t0, t1[:3] + (t1[3] + 1,) + t1[4:])
    elif what == "restore":
        tplg.nodes[n]["typesGH"] = saved["t"]


def run_history(rsmi, core, inv, strategy, mode, script, a, b, tgt):
    """Run SCRIPTS[script].  Returns a list of step records {label, equal, tgt_shared, tgt_fresh, detail}.
    a, b = unmapped reactant / product side of the standardised reaction; tgt = the standardised reaction."""
    from synkit.IO.chem_converter import rsmi_to_its
    from synkit.Rule import SynRule
    K.quiet()
    steps = SCRIPTS[script]
    full_only = {"string"}

    def tpl_fresh(edits):
        g = rsmi_to_its(rsmi, core=core)
        sv = {}
        for e in edits:
            _edit(g, e, sv)
        return g

    def rule_of(g):
        return SynRule(g, implicit_h=(mode != "I"))
    shared_tpl = rsmi_to_its(rsmi, core=core)
    shared_rule = rule_of(copy.deepcopy(shared_tpl))

    def rule_sig():
        return (K._gsig(shared_rule.rc.raw), K._gsig(shared_rule.left.raw), K._gsig(shared_rule.right.raw))
    sig_rule0, sig_tpl = rule_sig(), K._gsig(shared_tpl)
    saved, edits = {}, []
    sub0 = b if inv else a
    R = None
    out = []
    for i, st in enumerate(steps):
        if st[0] == "edit":
            _edit(shared_tpl, st[1], saved)
            edits.append(st[1])
            sig_tpl = K._gsig(shared_tpl)          # the caller's own edit: the new reference value
            continue
        if st[0] == "read":
            attr = st[1]
            if R is None:
                R = make_reactor(sub0, "graph", shared_tpl, rsmi, core, inv, strategy, mode)
            got = read_attr(R, attr)
            want = read_attr(make_reactor(sub0, "graph", tpl_fresh(edits), rsmi, core, inv, strategy, mode), attr)
            label = "read %s" % attr
            is_smarts = attr in ("smarts_list", "smarts")
            demand = core_ok = True
        else:
            _, d, strat, form = st
            sinv = (d == "bwd")
            sub = b if sinv else a
            use_core = core and form not in full_only
            g_sh = shared_tpl if use_core == core else rsmi_to_its(rsmi, core=use_core)
            got = read_attr(make_reactor(sub, form, g_sh, rsmi, use_core, sinv, strat, mode, rule=shared_rule), "smarts_list")
            fg = tpl_fresh(edits) if use_core == core else rsmi_to_its(rsmi, core=use_core)
            # the fresh evaluation always hands over a fresh graph with keyword arguments and default options
            want = read_attr(make_reactor(sub, "graph", fg, rsmi, use_core, sinv, strat, mode), "smarts_list")
            label = "new %s %s %s" % (d, strat, form)
            is_smarts = True
            demand = not edits or edits[-1] == "restore"
        rec = dict(label=label, step=i)
        if is_smarts:
            gs, ws = {K.std_fit(x) for x in got}, {K.std_fit(x) for x in want}
            if st[0] == "new" and st[3] == "partial":
                # the partial-matching engine may add partial matches: only "the reaction is not lost" is demanded
                rec["equal"] = (tgt in gs) or (tgt not in ws)
            else:
                rec["equal"] = (gs == ws) if st[0] == "new" else (got == want)
            rec["tgt_shared"], rec["tgt_fresh"] = tgt in gs, tgt in ws
            rec["demand"] = demand
        else:
            rec["equal"] = got == want
        if not rec["equal"]:
            rec["detail"] = "shared objects give %s, a fresh evaluation gives %s" % (repr(got)[:160], repr(want)[:160])
        # the reactor must leave the template objects it was given as they were (ITS graph and SynRule object: rc / left / right)
        changed = [nm for nm, a, b in (("template graph", K._gsig(shared_tpl), sig_tpl), ("SynRule object", rule_sig(), sig_rule0)) if a != b]
        if changed:
            rec["equal"] = False
            rec["modified"] = True
            rec["detail"] = "template object modified by the reactor: %s; %s" % (", ".join(changed), rec.get("detail", ""))
        out.append(rec)
    return out
