"""C15 round 5 — the mapping API of RXNSide on caller-held objects (model: coq/model/C15_Side.v, `run_side`).

case = {"kind": "h5-side", "k": <#sides>, "ops": [op, ...]}
  ["new", k, items(, "ctor")]   items = [["p", label, count] | ["l", label], ...]      RXNSide.from_any(...) / RXNSide(...)
  ["set", k, x, c] | ["incr", k, x, by] | ["pop", k, x, default|None] | ["update", k, items] | ["copy", k, k2]
  ["q", k, name, args...]       getitem x | get x default|None | len | contains x | keys | iter | values | items | todict | species
                                | arity coeff | expand
After every op: the answer and every side (as a dict).  Containers handed back are mutated by the caller afterwards.
"""
from ..coqrun import cstr, cZ, cnat, cbool, clist, copt
from ..tok import S
from . import c15_ext as X


def _arg(items):
    return [(it[1], it[2]) if it[0] == "p" else it[1] for it in items]


def _apply(pool, op):
    from synkit.CRN.Hypergraph.rxn import RXNSide
    k = op[0]
    if k == "new":
        pool[op[1]] = RXNSide(_arg(op[2])) if (len(op) > 3 and op[3] == "ctor") else RXNSide.from_any(_arg(op[2]))
        return []
    sd = pool[op[1]]
    if k == "set":
        sd[op[2]] = op[3]
        return []
    if k == "incr":
        sd.incr(op[2], op[3])
        return []
    if k == "pop":
        r = sd.pop(op[2]) if op[3] is None else sd.pop(op[2], op[3])
        return [] if r is None else [int(r)]
    if k == "update":
        arg = _arg(op[2])
        sd.update({a: b for a, b in arg} if all(isinstance(a, tuple) for a in arg) and len({a[0] for a in arg}) == len(arg) else arg)
        return []
    if k == "copy":
        pool[op[2]] = sd.copy()
        return []
    assert k == "q"
    name = op[2]
    if name == "getitem":
        try:
            return [0, int(sd[op[3]])]
        except KeyError:
            return [1]
    if name == "get":
        r = sd.get(op[3]) if op[4] is None else sd.get(op[3], op[4])
        return [] if r is None else [int(r)]
    if name == "len":
        return len(sd)
    if name == "contains":
        return op[3] in sd
    if name in ("keys", "iter", "species"):
        ks = list(sd.keys()) if name == "keys" else (list(iter(sd)) if name == "iter" else sd.species())
        ans = S(sorted(ks))
        if isinstance(ks, set):
            ks.add("~junk")
        else:
            ks.append("~junk")
        return ans
    if name == "values":
        # values in dict order, next to keys(): observed as the multiset of (key, value) pairs
        return S([[a, int(b)] for a, b in zip(sd.keys(), sd.values())])
    if name in ("items", "todict"):
        d = dict(sd.items()) if name == "items" else sd.to_dict()
        ans = S([[a, int(b)] for a, b in d.items()])
        d["~junk"] = 9
        return ans
    if name == "arity":
        return int(sd.arity(op[3]))
    if name == "expand":
        ex = sd.expand()
        cnt = {}
        for x in ex:
            cnt[x] = cnt.get(x, 0) + 1
        ex.append("~junk")
        return S([[a, b] for a, b in cnt.items()])
    raise AssertionError(name)


def impl5(case):
    from synkit.CRN.Hypergraph.rxn import RXNSide
    pool = [RXNSide() for _ in range(case["k"])]
    out = []
    for op in case["ops"]:
        ans = _apply(pool, op)
        out.append([ans, [dict(p.to_dict()) for p in pool]])
    return out


def _q(op):
    name = op[2]
    if name == "getitem":
        return "SGetItem %s" % cstr(op[3])
    if name == "get":
        return "SGet %s %s" % (cstr(op[3]), copt(None if op[4] is None else cZ(op[4])))
    if name == "len":
        return "SLen"
    if name == "contains":
        return "SContains %s" % cstr(op[3])
    if name in ("keys", "iter"):
        return "SKeys"
    if name == "species":
        return "SSpecies"
    if name == "values":
        return "SValues"
    if name in ("items", "todict"):
        return "SItems"
    if name == "arity":
        return "SArity %s" % cbool(op[3])
    if name == "expand":
        return "SExpand"
    raise AssertionError(name)


def _op(op):
    k = op[0]
    if k == "new":
        return "SNew %s %s" % (cnat(op[1]), X._items(op[2]))
    if k == "set":
        return "SSet %s %s %s" % (cnat(op[1]), cstr(op[2]), cZ(op[3]))
    if k == "incr":
        return "SIncr %s %s %s" % (cnat(op[1]), cstr(op[2]), cZ(op[3]))
    if k == "pop":
        return "SPop %s %s %s" % (cnat(op[1]), cstr(op[2]), copt(None if op[3] is None else cZ(op[3])))
    if k == "update":
        return "SUpdate %s %s" % (cnat(op[1]), X._items(op[2]))
    if k == "copy":
        return "SCopy %s %s" % (cnat(op[1]), cnat(op[2]))
    return "SQuery %s (%s)" % (cnat(op[1]), _q(op))


def coq_case5(case):
    return "run_side %s %s" % (cnat(case["k"]), clist([_op(o) for o in case["ops"]]))


def oracle5(case):
    """independent reference: plain dicts label -> positive int.  The part of the property that lives here: a side is always a
    positive integer multiset (the stored stoichiometry of C15's first clause is read off such objects), an object handed to the
    caller is the caller's (copy() shares nothing, answers share nothing)."""
    from synkit.CRN.Hypergraph.rxn import RXNSide
    pool = [RXNSide() for _ in range(case["k"])]
    ref = [dict() for _ in range(case["k"])]
    fails = []
    for t, op in enumerate(case["ops"]):
        k = op[0]
        ans = _apply(pool, op)
        if k in ("new", "update"):
            d = {} if k == "new" else ref[op[1]]
            for it in op[2]:
                if it[0] == "p":
                    if it[2] > 0:
                        d[it[1]] = d.get(it[1], 0) + it[2]
                elif it[1] != "":
                    d[it[1]] = d.get(it[1], 0) + 1
            ref[op[1]] = d
        elif k == "set":
            if op[3] <= 0:
                ref[op[1]].pop(op[2], None)
            else:
                ref[op[1]][op[2]] = op[3]
        elif k == "incr":
            c = ref[op[1]].get(op[2], 0) + op[3]
            if c <= 0:
                ref[op[1]].pop(op[2], None)
            else:
                ref[op[1]][op[2]] = c
        elif k == "pop":
            want = ref[op[1]].pop(op[2], op[3])
            if ans != ([] if want is None else [want]):
                fails.append(dict(clause="side-pop", detail="op %d %r answered %r, expected %r" % (t, op, ans, want)))
        elif k == "copy":
            ref[op[2]] = dict(ref[op[1]])
        for j, (p, d) in enumerate(zip(pool, ref)):
            got = dict(p.to_dict())
            if got != d or any((not isinstance(c, int)) or c <= 0 for c in got.values()):
                fails.append(dict(clause="side-multiset", detail="op %d %r: side %d is %r, expected %r" % (t, op, j, got, d)))
        if fails:
            break
    return fails[:3]


LAB = ["A", "B", "Cl2", "", "x y", "r_1"]


def _items(rng):
    out = []
    for _ in range(rng.choice([0, 1, 2, 2, 3])):
        if rng.random() < 0.4:
            out.append(["l", rng.choice(LAB)])
        else:
            out.append(["p", rng.choice(LAB), rng.choice([1, 1, 2, 3, 12, 0, -1])])
    return out


def queries(k):
    qs = [["q", k, n] for n in ("len", "keys", "iter", "values", "items", "todict", "species", "expand")]
    qs += [["q", k, "arity", True], ["q", k, "arity", False]]
    for x in ("A", "", "Zz"):
        qs += [["q", k, "getitem", x], ["q", k, "get", x, None], ["q", k, "get", x, 7], ["q", k, "contains", x]]
    return qs


def gen_cases5(tier, rng):
    cases = []
    pre = [["new", 0, [["p", "A", 2], ["l", "B"], ["p", "A", 1], ["p", "Cl2", 12], ["l", ""], ["p", "", 3], ["p", "Zz", 0]]],
           ["new", 1, [["l", "A"]], "ctor"], ["copy", 0, 2]]
    muts = [["set", 0, "A", 5], ["set", 0, "A", 0], ["set", 0, "New", 4], ["set", 0, "New", -2], ["incr", 0, "A", 1], ["incr", 0, "A", -3], ["incr", 0, "A", -2],
            ["incr", 0, "New", 2], ["incr", 0, "New", 0], ["pop", 0, "A", None], ["pop", 0, "Zz", None], ["pop", 0, "Zz", 7], ["pop", 0, "", 0],
            ["update", 0, [["p", "A", 3], ["l", "Q"]]], ["update", 0, []], ["update", 0, [["p", "A", -1]]], ["copy", 0, 1], ["copy", 1, 0], ["new", 0, []]]
    for m in muts:                      # every mutator between two rounds of every query, the copy (side 2) queried as well
        cases.append(dict(kind="h5-side", k=3, ops=pre + queries(0) + [m] + queries(0) + queries(2)[:6] + queries(1)[:4]))
    for _ in range(60 if tier == "quick" else 600):
        ops = []
        for _ in range(rng.randint(3, 16)):
            k = rng.randrange(3)
            z = rng.random()
            if z < 0.18:
                ops.append(["new", k, _items(rng)] + (["ctor"] if rng.random() < 0.3 else []))
            elif z < 0.3:
                ops.append(["set", k, rng.choice(LAB), rng.choice([1, 2, 11, 0, -1])])
            elif z < 0.42:
                ops.append(["incr", k, rng.choice(LAB), rng.choice([1, 2, -1, -2, 0, 10])])
            elif z < 0.52:
                ops.append(["pop", k, rng.choice(LAB), rng.choice([None, None, 0, 5])])
            elif z < 0.62:
                ops.append(["update", k, _items(rng)])
            elif z < 0.7:
                ops.append(["copy", k, rng.randrange(3)])
            else:
                ops.append(rng.choice(queries(k)))
        cases.append(dict(kind="h5-side", k=3, ops=ops))
    return cases
