"""Shared by C03 / C04 (rule application): corpus access, reactor construction with
recording wrappers, graph observables, Gallina encoders, independent ITS-level oracle.

Everything that touches synkit / networkx / rdkit is imported inside functions.

Conventions
-----------
* element symbols are coded as N by `ecode` (big-endian bytes of the symbol: injective,
  no interning table to ship between processes): 'C' -> 67, 'H' -> 72, '*' -> 42.
* bond orders and standard orders are shipped in half-units (1.0 -> 2, 1.5 -> 3).
* a template is {"rsmi": str, "core": bool} (= rsmi_to_its(rsmi, core=core)) or
  {"graph": <JSON ITS graph>}; a substrate is a SMILES string or {"graph": <JSON graph>}.
* mode: "E" default (explicit_h=True), "S" (explicit_h=False, implicit_temp=False),
  "I" (implicit_temp=True, explicit_h=False).
"""
import json
import os

VERIF = os.path.dirname(os.path.dirname(os.path.dirname(os.path.abspath(__file__))))

MODES = {"E": dict(), "S": dict(explicit_h=False), "I": dict(explicit_h=False, implicit_temp=True)}


def ecode(s):
    return int.from_bytes(s.encode(), "big")


def half(x):
    v = x * 2
    if v != int(v):
        raise ValueError("not a half-integer: %r" % (x,))
    return int(v)


# ------------------------------------------------------------------ corpus

_CORPUS = None


def corpus():
    """{'usp': [100 mapped reactions, explicit centre H], 'eco': [274, implicit H]}"""
    global _CORPUS
    if _CORPUS is None:
        from synkit.IO.data_io import load_from_pickle
        usp = [d["smart"] for d in load_from_pickle("/repo/Data/Testcase/graph.pkl.gz")]
        eco = [d["smart"] for d in json.load(open("/repo/Data/ecoli.json.gz"))]
        _CORPUS = {"usp": usp, "eco": eco}
    return _CORPUS


_STD = None


def std_fit(r):
    global _STD
    if _STD is None:
        from synkit.Chem.Reaction.standardize import Standardize
        _STD = Standardize()
    try:
        return _STD.fit(r)
    except Exception:
        return None


def quiet():
    import warnings
    import logging
    warnings.filterwarnings("ignore")
    logging.disable(logging.CRITICAL)
    try:
        from rdkit import RDLogger
        RDLogger.DisableLog("rdApp.*")
    except Exception:
        pass


# ------------------------------------------------------------------ JSON <-> nx

def _tup(t):
    return (t[0], bool(t[1]), int(t[2]), int(t[3]), list(t[4]))


def its_from_json(g):
    import networkx as nx
    G = nx.Graph()
    for n, a in g["nodes"]:
        a = dict(a)
        if "typesGH" in a:
            a["typesGH"] = (_tup(a["typesGH"][0]), _tup(a["typesGH"][1]))
        G.add_node(n, **a)
    for u, v, a in g["edges"]:
        a = dict(a)
        if isinstance(a.get("order"), (list, tuple)):
            a["order"] = (float(a["order"][0]), float(a["order"][1]))
        elif "order" in a:
            a["order"] = float(a["order"])
        if "standard_order" in a:
            a["standard_order"] = float(a["standard_order"])
        G.add_edge(u, v, **a)
    return G


def mol_from_json(g):
    import networkx as nx
    G = nx.Graph()
    for n, a in g["nodes"]:
        G.add_node(n, **dict(a))
    for u, v, a in g["edges"]:
        a = dict(a)
        a["order"] = float(a["order"])
        G.add_edge(u, v, **a)
    return G


def tpl_graph(tpl):
    if "graph" in tpl:
        return its_from_json(tpl["graph"])
    from synkit.IO.chem_converter import rsmi_to_its
    return rsmi_to_its(tpl["rsmi"], core=bool(tpl.get("core", True)))


def sub_obj(sub, form=None):
    """the substrate object handed to SynReactor: a SMILES string (unlabelled, labelled, partially labelled - whatever
    the text says), an nx graph, or a SynGraph wrapper (form == 'syngraph')"""
    if isinstance(sub, dict):
        g = mol_from_json(sub["graph"])
    else:
        g = sub
    if form == "syngraph":
        from synkit.Graph.syn_graph import SynGraph
        from synkit.Graph.canon_graph import GraphCanonicaliser
        if isinstance(g, str):
            from synkit.IO.chem_converter import smiles_to_graph
            g = smiles_to_graph(g, use_index_as_atom_map=False, drop_non_aam=False)
        return SynGraph(g, GraphCanonicaliser())
    return g


def ref_graph_from_smiles(smi):
    """Independent reading of a substrate SMILES (RDKit only, atom-map numbers ignored): node = atom index + 1 with element,
    charge, total hydrogens, aromatic flag; edge order as a float.  Explicit [H] atoms bonded to a heavy atom are folded."""
    import networkx as nx
    from rdkit import Chem
    m = Chem.MolFromSmiles(smi)
    if m is None:
        return None
    m = Chem.RemoveHs(m)
    G = nx.Graph()
    for a in m.GetAtoms():
        G.add_node(a.GetIdx() + 1, element=a.GetSymbol(), charge=a.GetFormalCharge(), hcount=a.GetTotalNumHs(), aromatic=a.GetIsAromatic())
    for b in m.GetBonds():
        G.add_edge(b.GetBeginAtomIdx() + 1, b.GetEndAtomIdx() + 1, order=b.GetBondTypeAsDouble())
    return G


def input_failures(case, host):
    """clause (a) starts at the input: the graph the reactor works on must be the substrate the caller handed in"""
    import networkx as nx
    sub = case["sub"]
    if isinstance(sub, dict):
        ref = mol_from_json(sub["graph"])
        same = (set(ref.nodes) == set(host.nodes) and
                all((ref.nodes[n].get("element"), ref.nodes[n].get("charge", 0), ref.nodes[n].get("hcount", 0)) ==
                    (host.nodes[n].get("element"), host.nodes[n].get("charge", 0), host.nodes[n].get("hcount", 0)) for n in ref.nodes) and
                {frozenset(e): ref.edges[e]["order"] for e in ref.edges} == {frozenset(e): host.edges[e]["order"] for e in host.edges})
        if not same:
            return [("a-input", "the reactor works on a graph that differs from the substrate graph it was given (%d/%d atoms, %d/%d bonds)"
                     % (host.number_of_nodes(), ref.number_of_nodes(), host.number_of_edges(), ref.number_of_edges()))]
        return []
    ref = ref_graph_from_smiles(sub)
    if ref is None:
        return []
    if any(d.get("element") == "H" for _, d in host.nodes(data=True)):
        return []          # substrate written with explicit hydrogen atoms: the folded reference does not apply
    nm = lambda a, b: (a.get("element"), a.get("charge", 0), a.get("hcount", 0), bool(a.get("aromatic", False))) == \
                      (b.get("element"), b.get("charge", 0), b.get("hcount", 0), bool(b.get("aromatic", False)))
    em = lambda a, b: float(a.get("order", 1.0)) == float(b.get("order", 1.0))
    if host.number_of_nodes() != ref.number_of_nodes() or host.number_of_edges() != ref.number_of_edges() or \
            not nx.is_isomorphic(host, ref, node_match=nm, edge_match=em):
        return [("a-input", "the reactor works on a substrate of %d atoms / %d bonds, the SMILES %r has %d atoms / %d bonds (or labels differ): "
                 "every returned reaction has a different molecule on its substrate side"
                 % (host.number_of_nodes(), host.number_of_edges(), sub, ref.number_of_nodes(), ref.number_of_edges()))]
    return []


# ------------------------------------------------------------------ reactor run with recording

class Rec:
    """Everything the correspondence needs from one SynReactor run."""
    pass


def run_reactor(case, want_smarts=False, prune=True):
    """Build the reactor of `case`, run its_list (and smarts_list) with recording wrappers
    around _glue_graph / _get_explicit_map.  Returns Rec or raises."""
    import copy
    import synkit.Synthesis.Reactor.syn_reactor as SR
    quiet()
    cfg = dict(MODES[case.get("mode", "E")])
    tpl = case["_shared_tpl"] if "_shared_tpl" in case else tpl_graph(case["tpl"])
    rec = Rec()
    rec.tpl = copy.deepcopy(tpl)
    rec.glue_calls = []       # [mapping, [explicit remaps] | None, host_explicit | None, [its before _explicit_h]]
    orig_glue = SR.SynReactor.__dict__["_glue_graph"].__func__
    orig_gem = SR.SynReactor.__dict__["_get_explicit_map"].__func__
    orig_dedup = SR.deduplicate_matches_by_automorphisms      # (matches, automorphisms); called only when > 1 raw match
    cur = {}

    def gem(host, mapping, pattern_explicit=None, *a, **k):
        ms, hx = orig_gem(host, mapping, pattern_explicit, *a, **k)
        cur["remaps"] = [dict(m) for m in ms]
        cur["hx"] = copy.deepcopy(hx)
        return ms, hx

    def glue(host, rc, mapping, *a, **k):
        cur.clear()
        out = orig_glue(host, rc, mapping, *a, **k)
        rec.glue_calls.append([dict(mapping), cur.get("remaps"), cur.get("hx"), [copy.deepcopy(g) for g in out]])
        return out

    raw_seen = {}

    def dedup(ms, *a, **k):
        ms = list(ms)
        raw_seen["raw"] = [dict(m) for m in ms]
        if prune:
            return orig_dedup(ms, *a, **k)
        return ms

    # visiting order of every hydrogen-transfer group inside _explicit_h (a Python set: hash-table order, not sorted order;
    # the first-fit pairing depends on it as soon as a group has two donors and two recipients) -- an oracle input of the model
    import networkx as _nx
    orig_ex = SR.SynReactor.__dict__["_explicit_h"].__func__
    orig_cc = _nx.connected_components
    rec.ex_orders = []        # one entry per _explicit_h call (= per glued graph, in its_list order): [visiting order of each group]
    ex_state = {"cur": None}

    def cc(G):
        for comp in orig_cc(G):
            if ex_state["cur"] is not None:
                ex_state["cur"].append([n for n in comp])
            yield comp

    def ex(g):
        ex_state["cur"] = []
        try:
            return orig_ex(g)
        finally:
            rec.ex_orders.append(ex_state["cur"])
            ex_state["cur"] = None

    SR.SynReactor._glue_graph = staticmethod(glue)
    SR.SynReactor._get_explicit_map = staticmethod(gem)
    SR.SynReactor._explicit_h = staticmethod(ex)
    _nx.connected_components = cc
    SR.deduplicate_matches_by_automorphisms = dedup
    try:
        opts = dict(case.get("opts") or {})
        strategy = case.get("strategy", "all")
        if opts.pop("strategy_enum", False):
            from synkit.Synthesis.Reactor.strategy import Strategy
            strategy = Strategy.from_string(strategy)
        if opts.pop("canonicaliser", False):
            from synkit.Graph.canon_graph import GraphCanonicaliser
            opts["canonicaliser"] = GraphCanonicaliser()
        via = opts.pop("via", None)
        tform = case.get("tpl_form")
        if tform == "string":
            tpl_arg = case["tpl"]["rsmi"]                       # the reactor parses it itself (rsmi_to_its, full ITS)
        elif tform == "synrule":
            from synkit.Rule import SynRule
            tpl_arg = SynRule(tpl, implicit_h=False) if cfg.get("implicit_temp") else SynRule(tpl)
        elif tform == "synrule-raw":
            from synkit.Rule import SynRule
            tpl_arg = SynRule(copy.deepcopy(tpl), implicit_h=False)      # hand-written rule (own hydrogen counts and h_pairs), whatever the reactor's mode
        else:
            tpl_arg = tpl
        sobj = case["_shared_sub"] if "_shared_sub" in case else sub_obj(case["sub"], case.get("sub_form"))
        if via == "from_smiles":
            cfg2 = dict(cfg)
            R = SR.SynReactor.from_smiles(sobj, tpl_arg, invert=bool(case.get("invert", False)), strategy=strategy, **cfg2, **opts)
        elif via == "positional":
            R = SR.SynReactor(sobj, tpl_arg, bool(case.get("invert", False)), None, cfg.get("explicit_h", True),
                              cfg.get("implicit_temp", False), strategy, **opts)
        else:
            R = SR.SynReactor(sobj, tpl_arg, invert=bool(case.get("invert", False)), strategy=strategy, **cfg, **opts)
        # inputs as the caller holds them, before anything is computed
        raw_in = sobj._raw if hasattr(sobj, "_raw") else sobj
        snap_sub = _gsig(raw_in) if hasattr(raw_in, "nodes") else None
        snap_tpl = _gsig(tpl)
        first = case.get("first")
        if first:
            # the FIRST thing asked of a fresh reactor (nothing else has been read yet)
            try:
                getattr(R, first)
            except StopIteration:
                pass
        rec.script_vals = None
        if case.get("script"):
            # a SCRIPT of reads on the fresh reactor, every value kept (model: run_reads, the reactor as a state machine)
            rec.script_vals = []
            for attr in case["script"]:
                try:
                    v = getattr(R, attr)
                except StopIteration:
                    rec.script_vals.append([attr, "raise", None])
                    continue
                code = SCRIPT_OPS[attr]
                if code == 0:
                    v = [copy.deepcopy(v.rc.raw), copy.deepcopy(v.left.raw), copy.deepcopy(v.right.raw)]
                elif code == 1:
                    v = [dict(m) for m in v]
                elif code == 3:
                    v = [copy.deepcopy(g) for g in v]
                elif code in (4, 5):
                    v = list(v)
                rec.script_vals.append([attr, code, v])
        rec.R = R
        rec.host = R.graph.raw
        rec.rule = R.rule
        rec.mappings = [dict(m) for m in R.mappings]
        rec.raw = raw_seen.get("raw", rec.mappings)
        rec.flag = bool(R._flag_pattern_has_explicit_H)
        try:
            rec.its_list = list(R.its_list)
            rec.its_err = None
        except StopIteration:
            rec.its_list = []
            rec.its_err = "StopIteration"
        if rec.script_vals is not None and any(code == "raise" for _, code, _ in rec.script_vals):
            # a scripted read raised (StopIteration inside _explicit_h): the reads made here afterwards find the cache filled with the
            # glued graphs and do not raise -- the run is a crashed one
            rec.its_err = "StopIteration"
        if want_smarts:
            rec.smarts = list(R.smarts_list) if rec.its_err is None else []
        rec.inputs_ok = True
        rec.reads_ok = True
        reads = int(case.get("reads", 0))
        if reads > 1 and rec.its_err is None:
            # lazily cached attributes and everything derived from them, read again and again
            def snap():
                return dict(mappings=[dict(m) for m in R.mappings], its=[_gsig(g) for g in R.its_list], smarts=list(R.smarts_list))
            first = snap()
            seen = [first]
            for i in range(reads - 1):
                # reads in varying order and number, so that a value that flips on every access cannot alias
                if i % 2 == 0:
                    _ = R.smiles_list
                _ = (R.mapping_count, R.substrate_smiles, R.smarts, R.its)
                seen.append(snap())
                seen.append(dict(mappings=[dict(m) for m in R._mappings_prop], its=[_gsig(g) for g in R.its], smarts=list(R.smarts)))
            if any(x != first for x in seen):
                rec.reads_ok = False
            rec.its_list = list(R.its_list)
            if want_smarts:
                rec.smarts = list(R.smarts_list)           # the oracle judges the LAST read
        # the caller's objects must be, attribute for attribute, what they were before the call
        if (snap_sub is not None and _gsig(raw_in) != snap_sub) or _gsig(tpl) != snap_tpl:
            rec.inputs_ok = False
            rec.inputs_what = "substrate graph" if (snap_sub is not None and _gsig(raw_in) != snap_sub) else "template graph"
        mut = case.get("mutate_results")
        if mut and rec.its_err is None:
            # the caller edits what it got back; nothing computed later may depend on it (see the history cases)
            rec.its_list = [copy.deepcopy(g) for g in rec.its_list]
            for m in R.mappings:
                m.clear()
            for g in R.its_list:
                g.clear()
            if R._smarts is not None:
                R._smarts[:] = ["garbage>>garbage"] * len(R._smarts)
    finally:
        SR.SynReactor._glue_graph = staticmethod(orig_glue)
        SR.SynReactor._get_explicit_map = staticmethod(orig_gem)
        SR.SynReactor._explicit_h = staticmethod(orig_ex)
        _nx.connected_components = orig_cc
        SR.deduplicate_matches_by_automorphisms = orig_dedup
    return rec


def order_tables(rec, maxm, maxr, valid_of):
    """per call (first maxm), per (re)mapping (first maxr): the visiting orders of the hydrogen-transfer groups that are NOT the
    sorted order (the model's default), read off the recording around _explicit_h; [] where _explicit_h did not run"""
    tbls = []
    k = 0
    for ci, (m, remaps, hx, out) in enumerate(rec.glue_calls):
        ms = [m] if remaps is None else remaps
        valid = valid_of(ci)
        row = []
        j = 0
        for q, mm in enumerate(ms[:maxr]):
            if not valid[q]:
                row.append([])
                continue
            idx = k + j
            orders = rec.ex_orders[idx] if idx < len(rec.ex_orders) else []
            row.append([[int(x) for x in o] for o in orders if len(o) >= 2 and list(o) != sorted(o)])
            j += 1
        if ci < maxm:
            tbls.append(row)
        k += len(out)
    return tbls


# attribute read -> op code of model/C03_Reactor.v (op_of)
SCRIPT_OPS = {"rule": 0, "mappings": 1, "_mappings_prop": 1, "mapping_count": 2, "its_list": 3, "its": 3,
              "smarts_list": 4, "smarts": 4, "smiles_list": 5}


def script_obs(rec):
    """the values of the scripted reads in the shape of model/C03_Reactor.v trval: [0, rc, left, right] | [1, [mappings]] | [2, n] |
    [3, [result restricted to the atoms of its glued predecessor + number of further atoms]] | [4, [strings as bytes]] | [5] (raised)"""
    from ..tok import S
    glued = [g for _, _, _, out in rec.glue_calls for g in out]
    obs = []
    for attr, code, v in rec.script_vals:
        if code == "raise":
            obs.append([5])
        elif code == 0:
            obs.append([0, its_obs(v[0]), mol_obs(v[1]), mol_obs(v[2])])
        elif code == 1:
            obs.append([1, [map_obs(m) for m in v]])
        elif code == 2:
            obs.append([2, int(v)])
        elif code == 3:
            row = []
            for i, g in enumerate(v):
                old = set(glued[i].nodes) if i < len(glued) else set()
                o = its_obs(g, only=old)
                # ... and the two molecule graphs its_decompose makes of it (what _to_smarts hands to RDKit)
                from synkit.Graph.ITS.its_decompose import its_decompose
                sides, extra = [], []
                for side in its_decompose(g):
                    ns = [[n, ecode(d.get("element", "*")), 1 if d.get("aromatic", False) else 0, int(d.get("hcount", 0)), int(d.get("charge", 0)), hp_obs(d)]
                          for n, d in side.nodes(data=True) if n in old]
                    es = [[min(u, v), max(u, v), half(d["order"])] for u, v, d in side.edges(data=True) if u in old and v in old]
                    sides.append([S(ns), S(es)])
                    extra.append(side.number_of_edges() - len(es))
                row.append(o + [g.number_of_nodes() - len(o[0]["__set__"])] + sides + extra)
            obs.append([3, row])
        else:
            obs.append([4, [list(x.encode()) for x in v]])
    return obs


def side_smiles(its_graphs):
    """RDKit's half of _to_smarts, per ITS graph: (SMILES of the reactant side, of the product side), None where graph_to_smi
    gives up -- an oracle input of the model (the string logic on top of it is modelled)"""
    from synkit.Graph.ITS.its_decompose import its_decompose
    from synkit.Graph import remove_wildcard_nodes
    from synkit.IO.chem_converter import graph_to_smi
    out = []
    for g in its_graphs:
        l, r = its_decompose(g)
        a, b = graph_to_smi(remove_wildcard_nodes(l)), graph_to_smi(remove_wildcard_nodes(r))
        out.append([None if a is None else list(a.encode()), None if b is None else list(b.encode())])
    return out


def default_tpl_ok(tn, te):
    """The template-side hypotheses of the default-mode capstone theorems (proof/C03_ReactorSpec.v default_tpl_okb), computed
    independently on the JSON form of the template as written (nodes [id, G5, H5], edges [u, v, oG, oH, so] in half-units):
    well formed, bonds join its atoms, same element on both sides, and the template condition: with R = explicit hydrogens
    that have a non-hydrogen neighbour on both sides and K = non-hydrogen atoms, every h in R has as many product-side as
    reactant-side bonds to K, and the atoms outside R keep the total charge."""
    ids = [n for n, _, _ in tn]
    G = {n: g for n, g, _ in tn}
    H = {n: h for n, _, h in tn}
    ok = len(set(ids)) == len(ids)
    seen = set()
    for u, v, a, b, _ in te:
        k = frozenset((u, v))
        if u == v or k in seen or a < 0 or b < 0:
            ok = False
        seen.add(k)
        if u not in G or v not in G:
            return 0
    if not ok or any(G[n][0] != H[n][0] for n in ids):
        return 0

    def heavy_nbr(side, h):
        el = G if side == 0 else H
        return any((a if side == 0 else b) > 0 and h in (u, v) and el[v if u == h else u][0] != "H" for u, v, a, b, _ in te)

    def bonded(side, k, h):
        for u, v, a, b, _ in te:
            if {u, v} == {k, h}:
                return (a if side == 0 else b) > 0
        return False
    R = [h for h in ids if G[h][0] == "H" and heavy_nbr(0, h) and heavy_nbr(1, h)]
    K = [k for k in ids if G[k][0] != "H"]
    for h in R:
        if sum(bonded(1, k, h) for k in K) != sum(bonded(0, k, h) for k in K):
            return 0
    return 1 if sum(H[n][3] - G[n][3] for n in ids if n not in R) == 0 else 0


def _gsig(g):
    """value of a graph (nodes / edges with all attributes), for equality of repeated reads"""
    return (sorted((repr(n), repr(sorted(d.items(), key=repr))) for n, d in g.nodes(data=True)),
            sorted((repr(sorted((repr(u), repr(v)))), repr(sorted(d.items(), key=repr))) for u, v, d in g.edges(data=True)))


# ------------------------------------------------------------------ observables (ints only)

def t5(t):
    return [ecode(t[0]), 1 if t[1] else 0, int(t[2]), int(t[3]), [ecode(x) for x in t[4]]]


def hp_obs(d):
    return [[int(p) for p in d["h_pairs"]]] if "h_pairs" in d else []


def its_obs(g, only=None):
    """ITS graph -> [S(nodes), S(edges)];  node = [id, tG, tH, h_pairs option], edge = [u<v, oG2, oH2, so2]"""
    from ..tok import S
    ns = []
    for n, d in g.nodes(data=True):
        if only is not None and n not in only:
            continue
        ns.append([n, t5(d["typesGH"][0]), t5(d["typesGH"][1]), hp_obs(d)])
    es = []
    for u, v, d in g.edges(data=True):
        if only is not None and (u not in only or v not in only):
            continue
        o = d["order"]
        es.append([min(u, v), max(u, v), half(o[0]), half(o[1]), half(d.get("standard_order", 0.0))])
    return [S(ns), S(es)]


def mol_obs(g, with_types=False):
    """molecule-like graph -> [S(nodes), S(edges)]; node = [id, el, aro, hc, ch, h_pairs option]"""
    from ..tok import S
    ns = []
    for n, d in g.nodes(data=True):
        row = [n, ecode(d.get("element", "*")), 1 if d.get("aromatic", False) else 0, int(d.get("hcount", 0)),
               int(d.get("charge", 0)), hp_obs(d)]
        if with_types:
            t = d["typesGH"]
            row += [t5(t[0]), t5(t[1])]
        ns.append(row)
    es = [[min(u, v), max(u, v), half(d["order"])] for u, v, d in g.edges(data=True)]
    return [S(ns), S(es)]


def rc_obs(g, stripped):
    """rule.rc graph: its_obs + the plain hcount the stripping leaves on rc nodes"""
    from ..tok import S
    o = its_obs(g)
    return o + [S([[n, int(d.get("hcount", -1))] for n, d in g.nodes(data=True)] if stripped else [])]


def explicit_h_obs(before, after):
    """Order-insensitive view of SynReactor._explicit_h: original nodes / edges after the call,
    number of new H atoms, multiset of donors (bond H-donor order (1,0)) and recipients ((0,1))."""
    from ..tok import S
    old = set(before.nodes)
    new = [n for n in after.nodes if n not in old]
    don, rec, bad = [], [], 0
    for h in new:
        d = after.nodes[h]
        if d.get("element") != "H" or d["typesGH"] != (("H", False, 0, 0, []), ("H", False, 0, 0, [])):
            bad += 1
        for u in after.neighbors(h):
            e = after[u][h]
            if tuple(e["order"]) == (1, 0) and e["standard_order"] == 1:
                don.append(u)
            elif tuple(e["order"]) == (0, 1) and e["standard_order"] == -1:
                rec.append(u)
            else:
                bad += 1
        if after.degree(h) != 2:
            bad += 1
    return its_obs(after, only=old) + [len(new), S(don), S(rec), bad]


def explicit_h_wiring(before, after):
    """multiset of (donor, recipient) pairs, one per new explicit H atom of SynReactor._explicit_h (donor = the atom the
    H is bonded to with order (1,0), recipient = order (0,1)); a malformed new atom contributes [-1, -1]"""
    from ..tok import S
    old = set(before.nodes)
    pairs = []
    for h in after.nodes:
        if h in old:
            continue
        don = [u for u in after.neighbors(h) if tuple(after[u][h]["order"]) == (1, 0)]
        rec = [u for u in after.neighbors(h) if tuple(after[u][h]["order"]) == (0, 1)]
        pairs.append([int(don[0]), int(rec[0])] if len(don) == 1 and len(rec) == 1 else [-1, -1])
    return S(pairs)


def map_obs(m):
    from ..tok import S
    return S([[int(p), int(h)] for p, h in m.items()])


def map_pairs(m):
    """pattern -> host pairs in dict order (the order in which _get_explicit_map expands the hydrogens)"""
    return [[int(p), int(h)] for p, h in m.items()]


def in_domain_tpl(g):
    """the model's domain for a template graph: every node has typesGH with 5 slots, plain element equals the
    G-side element, no wildcard, half-integer orders, numeric standard_order."""
    for n, d in g.nodes(data=True):
        t = d.get("typesGH")
        if not t or len(t) != 2 or len(t[0]) != 5 or len(t[1]) != 5:
            return False
        if not isinstance(n, int) or n < 0:
            return False
        if d.get("element", t[0][0]) != t[0][0] or t[0][0] == "*" or t[1][0] == "*":
            return False
        if (t[0][0] == "H") != (t[1][0] == "H"):
            return False
    for u, v, d in g.edges(data=True):
        o = d.get("order")
        if not isinstance(o, tuple) or len(o) != 2:
            return False
        try:
            half(o[0]); half(o[1]); half(d.get("standard_order"))
        except Exception:
            return False
    return True


# ------------------------------------------------------------------ Gallina encoders

def cN(n):
    return "%d%%N" % n


def cZ(n):
    return "(%d)%%Z" % n


def cb(b):
    return "true" if b else "false"


def cl(xs):
    return "[" + "; ".join(xs) + "]"


def c_t5(t):
    return "(NA %s %s %s %s %s)" % (cN(ecode(t[0])), cb(t[1]), cZ(int(t[2])), cZ(int(t[3])), cl([cN(ecode(x)) for x in t[4]]))


def c_host(g):
    """nx molecule graph -> Gallina  lgraph nattr Z  (insertion order kept)"""
    ns = []
    for n, d in g.nodes(data=True):
        t = (d.get("element", "*"), d.get("aromatic", False), d.get("hcount", 0), d.get("charge", 0), d.get("neighbors", []))
        ns.append("(%s, %s)" % (cN(n), c_t5(t)))
    es = ["(%s, %s, %s)" % (cN(u), cN(v), cZ(half(d.get("order", 1.0)))) for u, v, d in g.edges(data=True)]
    return "(LG %s %s)" % (cl(ns), cl(es))


def c_its(g):
    """nx ITS graph -> Gallina  lgraph inode iedge"""
    ns = []
    for n, d in g.nodes(data=True):
        t = d["typesGH"]
        hp = ("(Some %s)" % cl([cN(p) for p in d["h_pairs"]])) if "h_pairs" in d else "None"
        ns.append("(%s, IN %s %s %s %s)" % (cN(n), c_t5(t[0]), c_t5(t[1]), cZ(int(d.get("hcount", 0)) if not isinstance(d.get("hcount", 0), tuple) else 0), hp))
    es = []
    for u, v, d in g.edges(data=True):
        o = d["order"]
        es.append("(%s, %s, (%s, %s, %s))" % (cN(u), cN(v), cZ(half(o[0])), cZ(half(o[1])), cZ(half(d.get("standard_order", 0.0)))))
    return "(LG %s %s)" % (cl(ns), cl(es))


def c_map(m):
    return cl(["(%s, %s)" % (cN(p), cN(h)) for p, h in m.items()])


# ------------------------------------------------------------------ independent ITS-level oracle

def _htot(g, side, n):
    """hydrogens on atom n on one side of an ITS graph: implicit count + explicit H neighbours bonded on that side"""
    t = g.nodes[n]["typesGH"][side]
    k = int(t[2])
    for u in g.neighbors(n):
        if g[n][u]["order"][side] > 0 and g.nodes[u]["typesGH"][side][0] == "H":
            k += 1
    return k


def heavy(g, n):
    return g.nodes[n]["typesGH"][0][0] != "H"


def changed_bond_graph(g, sign=1):
    """Graph of changed bonds in implicit-hydrogen normal form (hydrogen atoms folded into the hydrogen counts of
    their heavy neighbours): nodes = heavy atoms that are an end atom of a changed bond (a heavy-heavy bond whose order
    changes, or a bond to hydrogen made/broken = hydrogen count changes); node label (element, d hydrogens);
    edge label d order."""
    import networkx as nx
    C = nx.Graph()
    dh = {}
    for n in g.nodes:
        if heavy(g, n):
            dh[n] = sign * (_htot(g, 1, n) - _htot(g, 0, n))
    for u, v, d in g.edges(data=True):
        if heavy(g, u) and heavy(g, v):
            o = d["order"]
            if o[0] != o[1]:
                C.add_edge(u, v, d=sign * (o[1] - o[0]))
    for n, x in dh.items():
        if x != 0 and n not in C:
            C.add_node(n)
    for n in C.nodes:
        C.nodes[n]["lab"] = (g.nodes[n]["typesGH"][0][0], dh[n])
    return C


def cbg_iso(A, B):
    if A.number_of_nodes() != B.number_of_nodes() or A.number_of_edges() != B.number_of_edges():
        return False
    from networkx.algorithms.isomorphism import GraphMatcher
    return GraphMatcher(A, B, node_match=lambda a, b: a["lab"] == b["lab"], edge_match=lambda a, b: a["d"] == b["d"]).is_isomorphic()


def h_transfer_groups(g):
    """Hydrogens as ATOMS: every explicit H atom of an ITS graph links the heavy atoms to which it has a changed bond.
    Returns (group, arcs): group[heavy atom] = id of its connected transfer group; arcs = [(donor, recipient)] for every
    H atom with a broken bond to `donor` and a formed bond to `recipient`."""
    parent = {}

    def find(x):
        parent.setdefault(x, x)
        while parent[x] != x:
            parent[x] = parent[parent[x]]
            x = parent[x]
        return x
    arcs = []
    for h in g.nodes:
        if heavy(g, h):
            continue
        ch = [u for u in g.neighbors(h) if heavy(g, u) and g[h][u]["order"][0] != g[h][u]["order"][1]]
        for u in ch:
            find(u)
        for u in ch[1:]:
            parent[find(u)] = find(ch[0])
        don = [u for u in ch if g[h][u]["order"][0] > 0 and g[h][u]["order"][1] == 0]
        rec = [u for u in ch if g[h][u]["order"][0] == 0 and g[h][u]["order"][1] > 0]
        arcs += [(d, r) for d in don for r in rec]
    return {x: find(x) for x in parent}, arcs


def wiring_ok(its, tpl, sign=1, limit=3000):
    """Clause (c) with the migrating hydrogens as atoms, in the form every correct result satisfies: there is an
    isomorphism of the changed-bond graphs (result -> template, the one `cbg_iso` asks for) under which every hydrogen
    that moves in the result moves between two atoms of ONE hydrogen-transfer group of the template (a literal
    isomorphism of the changed-bond graphs with H atoms as nodes implies this).  Returns (ok, witness arc)."""
    _, arcs = h_transfer_groups(its)
    if not arcs:
        return True, None
    tgroup, tarcs = h_transfer_groups(tpl)
    if not tarcs:
        return True, None          # the template writes its hydrogen changes implicitly: nothing to compare
    A = changed_bond_graph(its)
    B = changed_bond_graph(tpl, sign)
    from networkx.algorithms.isomorphism import GraphMatcher
    gm = GraphMatcher(A, B, node_match=lambda a, b: a["lab"] == b["lab"], edge_match=lambda a, b: a["d"] == b["d"])
    bad = None
    for i, phi in enumerate(gm.isomorphisms_iter()):
        if i >= limit:
            return True, None      # too symmetric to decide within the budget: no verdict
        bad = None
        for d, r in arcs:
            if d in phi and r in phi:
                gd, gr = tgroup.get(phi[d]), tgroup.get(phi[r])
                if gd is None or gr is None or gd != gr:
                    bad = (d, r)
                    break
        if bad is None:
            return True, None
    return (bad is None), bad


def totals(g, sign=1):
    """(d total hydrogens, d total charge) product - reactant over all atoms of an ITS graph (explicit H atoms are
    atoms present on both sides: they cancel, only counts change)"""
    dH = dq = 0
    for n, d in g.nodes(data=True):
        t0, t1 = d["typesGH"]
        dH += int(t1[2]) - int(t0[2])
        dq += int(t1[3]) - int(t0[3])
    return sign * dH, sign * dq


def tpl_mode_ok(tpl, mode):
    """API precondition tying the hydrogen mode to how the template is written: the default / explicit_h=False modes
    reset every hydrogen count of the template, so they are only meaningful for templates whose hydrogen changes are
    written with explicit H atoms (no atom with different implicit counts on the two sides)."""
    if mode == "I":
        return True
    return all(d["typesGH"][0][2] == d["typesGH"][1][2] for _, d in tpl.nodes(data=True))


def its_level_failures(host, tpl, its, invert):
    """Property C03 (a)(b)(c) on one glued ITS graph, against substrate `host` and the template ITS `tpl` as the caller
    supplied it.  Independent of the model: plain networkx reading of the attributes."""
    fails = []
    # (a) substrate side unchanged (hydrogens compared as totals: re-materialised H atoms count with their heavy atom)
    hn = set(host.nodes)
    extra = [n for n in its.nodes if n not in hn]
    if any(heavy(its, n) for n in extra) or not hn <= set(its.nodes):
        fails.append(("a", "node set of the result differs from the substrate by non-hydrogen atoms"))
    else:
        for n in hn:
            d = host.nodes[n]
            t = its.nodes[n]["typesGH"][0]
            want_h = d.get("hcount", 0) + sum(1 for u in host.neighbors(n) if host.nodes[u].get("element") == "H") if d.get("element") != "H" else 0
            got_h = _htot(its, 0, n) if d.get("element") != "H" else 0
            if (t[0], t[3]) != (d.get("element"), d.get("charge", 0)) or got_h != want_h or bool(t[1]) != bool(d.get("aromatic", False)):
                fails.append(("a", "atom %r of the substrate side is %r (hydrogens %d), substrate has %r/%r/H%d"
                              % (n, t[:4], got_h, d.get("element"), d.get("charge", 0), want_h)))
                break
        he = {frozenset(e): host.edges[e]["order"] for e in host.edges}
        ie = {frozenset((u, v)): d["order"][0] for u, v, d in its.edges(data=True) if d["order"][0] > 0 and u in hn and v in hn}
        if he != ie:
            diff = [(sorted(k), he.get(k), ie.get(k)) for k in set(he) | set(ie) if he.get(k) != ie.get(k)][:3]
            fails.append(("a", "substrate-side bonds differ from the substrate: %r" % diff))
    # (b) conservation: result imbalance must equal the template's (0 for balanced templates)
    sign = -1 if invert else 1
    tH, tq = totals(tpl, sign)
    rH, rq = totals(its)
    if (rH, rq) != (tH, tq):
        fails.append(("b", "hydrogen/charge change of the result (%d,%d) differs from the template's (%d,%d)" % (rH, rq, tH, tq)))
    # (b) every ELEMENT count: no atom of the result may change its element unless an atom of the template does (audit-A1, finding 1:
    # the product-side element was read by no clause)
    if all(d["typesGH"][0][0] == d["typesGH"][1][0] for _, d in tpl.nodes(data=True)):
        bad = [(n, d["typesGH"][0][0], d["typesGH"][1][0]) for n, d in its.nodes(data=True) if d["typesGH"][0][0] != d["typesGH"][1][0]]
        if bad:
            fails.append(("b", "element counts are not conserved: atom %r is %s on the substrate side and %s on the other side (no atom of the "
                          "template changes its element)" % bad[0]))
    # (c) changed bonds = template's changed bonds
    A = changed_bond_graph(its)
    B = changed_bond_graph(tpl, sign)
    if not cbg_iso(A, B):
        fails.append(("c", "changed-bond graph of the result (%r ; %r) is not isomorphic to the template's (%r ; %r)"
                      % (sorted(A.nodes(data="lab")), sorted((min(u, v), max(u, v), d) for u, v, d in A.edges(data="d")),
                         sorted(B.nodes(data="lab")), sorted((min(u, v), max(u, v), d) for u, v, d in B.edges(data="d")))))
    else:
        ok, arc = wiring_ok(its, tpl, sign)
        if not ok:
            fails.append(("c-wiring", "with the migrating hydrogens as atoms the changed-bond graph is not the template's: the explicit "
                          "hydrogen that leaves atom %r (%s) ends on atom %r (%s), two atoms that exchange no hydrogen in the template"
                          % (arc[0], its.nodes[arc[0]]["typesGH"][0][0], arc[1], its.nodes[arc[1]]["typesGH"][0][0])))
    return fails
