"""C01 HISTORY cases (ROUND3_BRIEF item B): one case = a script of 2-6 steps run in ONE process on SHARED objects.
Every step has an observable; the Gallina side evaluates the (pure) model on the value the step's inputs have at that
moment, so "each step equals the fresh value" is what the correspondence checks; the oracle additionally re-runs every
step alone after resetting the library's module-level state and demands the same answer, and applies the property's own
clauses to the default-option steps.

String histories   {"kind": "hist-str", "rsmi": r, "steps": [step, ...]}
  step = {"op": "r2g", "drop": b, "use": b, "node_attrs": [...]|"default", "edge_attrs": [...]|"default", "pos": b}
         {"op": "r2i"}                      rsmi_to_its(r)            (defaults)
         {"op": "i2r"}                      its_to_rsmi(last ITS)     (defaults; observed through the graphs handed to GraphToMol)
Graph histories    {"kind": "hist-pair", "G": json, "H": json, "steps": [step, ...]}
  step = {"op": "its", "opts": {...}|None, "pos": b}     ITSGraph / construct on the SHARED G, H objects
         {"op": "dec"}                                   its_decompose(last ITS)
         {"op": "edit", "side": "G"|"H", "what": [...]}  in-place edit of a shared input graph
         {"op": "spoil"}                                 the caller mutates the LAST RESULT (ITS / decomposed graphs) in place
"""
import copy

from ..tok import S
from . import c01_enc as E
from . import c01_str as T

SIX = ["element", "aromatic", "hcount", "charge", "neighbors", "atom_map"]

MODULES = ["synkit.Chem.Molecule.atom_features", "synkit.Graph.Hyrogen._misc", "synkit.IO.mol_to_graph", "synkit.IO.graph_to_mol",
           "synkit.Graph.ITS.its_construction", "synkit.Graph.ITS.its_decompose", "synkit.IO.chem_converter"]


def fresh_modules():
    """reset module-/class-level state of the anchored modules (re-executes them); a history then starts from a clean state
    whatever earlier cases did in this worker"""
    import importlib
    import sys
    for n in MODULES:
        if n in sys.modules:
            importlib.reload(sys.modules[n])
        else:
            importlib.import_module(n)


# ------------------------------------------------------------------ observables with an attribute selection

def _sel(node_attrs):
    na = SIX if node_attrs == "default" else node_attrs
    return [k in na for k in SIX]


def obs_mgraph_sel(G, node_attrs, edge_attrs):
    """mirror of tmgraph_sel: selected attribute -> [x], unselected -> []; an attribute that is present although unselected
    (or absent although selected) makes the row differ"""
    if G is None:
        return []
    sel = _sel(node_attrs)
    eo = edge_attrs == "default" or "order" in edge_attrs
    ns = []
    for n, d in G.nodes(data=True):
        row = [n]
        for k, on in zip(SIX, sel):
            if k in d:
                v = d[k]
                x = (E.elem_code(v) if k == "element" else E._bool(v) if k == "aromatic" else
                     [[E.elem_code(y) for y in v]] if k == "neighbors" else E._int(v))
                row.append([x] if on else ["unselected-but-present", k])
            else:
                row.append([] if not on else ["selected-but-absent", k])
        odd = sorted(set(d) - set(SIX))
        if odd:
            row.append(odd)
        ns.append(row)
    es = []
    for u, v, d in G.edges(data=True):
        row = [min(u, v), max(u, v)]
        if "order" in d:
            row.append([E.half(d["order"])] if eo else ["unselected-but-present"])
        else:
            row.append([] if not eo else ["selected-but-absent"])
        odd = sorted(set(d) - {"order"})
        if odd:
            row.append(odd)
        es.append(row)
    return [[S(ns), S(es)]]


# ------------------------------------------------------------------ string histories

def _r2g_call(rsmi, st):
    import synkit.IO.chem_converter as cc
    na = list(SIX) if st["node_attrs"] == "default" else list(st["node_attrs"])
    ea = ["order"] if st["edge_attrs"] == "default" else list(st["edge_attrs"])
    if st["node_attrs"] == "default" and st["edge_attrs"] == "default" and st["drop"] and st["use"] and not st.get("pos"):
        return cc.rsmi_to_graph(rsmi)
    if st.get("pos"):
        return cc.rsmi_to_graph(rsmi, st["drop"], True, st["use"], na, ea)
    return cc.rsmi_to_graph(rsmi, drop_non_aam=st["drop"], sanitize=True, use_index_as_atom_map=st["use"], node_attrs=na, edge_attrs=ea)


def _run_str_steps(rsmi, steps):
    """-> list of per-step observables (state shared between the steps: whatever the library keeps)"""
    import synkit.IO.chem_converter as cc
    out, last_its = [], None
    for st in steps:
        if st["op"] == "r2g":
            g, h = _r2g_call(rsmi, st)
            out.append([obs_mgraph_sel(g, st["node_attrs"], st["edge_attrs"]), obs_mgraph_sel(h, st["node_attrs"], st["edge_attrs"])])
        elif st["op"] == "r2i":
            mode = st.get("mode", "default")
            if mode == "core":
                out.append(E.obs_its(cc.rsmi_to_its(rsmi, core=True)))
            elif mode == "eh":
                out.append(T.obs_its_eh(cc.rsmi_to_its(rsmi, explicit_hydrogen=True)))
            else:
                last_its = cc.rsmi_to_its(rsmi)
                out.append(E.obs_its(last_its))
        elif st["op"] == "i2r":
            if last_its is None:
                last_its = cc.rsmi_to_its(rsmi)
            rec = []
            orig = cc.GraphToMol

            class Rec(orig):
                def graph_to_mol(self, graph, *a, **k):
                    rec.append(graph.copy())
                    return orig.graph_to_mol(self, graph, *a, **k)
            cc.GraphToMol = Rec
            try:
                back = cc.its_to_rsmi(last_its)
            finally:
                cc.GraphToMol = orig
            out.append([E.obs_mgraph(g) for g in rec] if len(rec) == 2 else ["unexpected-call-pattern", len(rec)])
        else:
            raise ValueError(st["op"])
    return out


def obs_hist_str(case):
    fresh_modules()
    return _run_str_steps(case["rsmi"], case["steps"])


def coq_hist_str(case):
    a, b = case["rsmi"].split(">>")
    ma, mb = T.sanitized_mol(a), T.sanitized_mol(b)
    if ma is None or mb is None:
        return None
    mr, mp = T.coq_rmol(T.read_rmol(ma)), T.coq_rmol(T.read_rmol(mb))
    terms = []
    for st in case["steps"]:
        if st["op"] == "r2g":
            if st["node_attrs"] != "default" and any(k not in SIX for k in st["node_attrs"]):
                return None                                      # extended selections: oracle only
            if st["edge_attrs"] != "default" and any(k != "order" for k in st["edge_attrs"]):
                return None
            sel = _sel(st["node_attrs"])
            eo = st["edge_attrs"] == "default" or "order" in st["edge_attrs"]
            terms.append("(run_r2g %s %s (AS %s) %s %s %s)" % (E.cb(st["drop"]), E.cb(st["use"]), " ".join(E.cb(x) for x in sel), E.cb(eo), mr, mp))
        elif st["op"] == "r2i" and st.get("mode") == "core":
            terms.append("(match rsmi_to_its_core %s %s with Some J => tits J | None => L [] end)" % (mr, mp))
        elif st["op"] == "r2i" and st.get("mode") == "eh":
            terms.append("(match rsmi_to_its_eh %s %s with Some (J, new) => L [tset (tinode_eh new) (gnodes J); tset tiedge (gedges J)] | None => L [] end)" % (mr, mp))
        elif st["op"] == "r2i":
            terms.append("(match rsmi_to_its_m %s %s with Some J => tits J | None => L [] end)" % (mr, mp))
        elif st["op"] == "i2r":
            terms.append("(match rsmi_to_its_m %s %s with Some J => L [tmgraph (fst (its_to_graphs J)); tmgraph (snd (its_to_graphs J))] | None => L [] end)" % (mr, mp))
    return "(L [%s])" % "; ".join(terms)


def oracle_hist_str(case, string_clauses, parse_ok):
    """(1) every step alone, after a reset of the library's state, must give the same observable as inside the history;
    (2) the property's own clauses on the state the history leaves behind (parse monitor + string round trip)"""
    fails = []
    fresh_modules()
    seq = _run_str_steps(case["rsmi"], case["steps"])
    from .. import tok
    for i, st in enumerate(case["steps"]):
        fresh_modules()
        alone = _run_str_steps(case["rsmi"], [st])[0]
        if tok.norm(tok.obs_to_tok(alone)) != tok.norm(tok.obs_to_tok(seq[i])):
            fails.append(dict(clause="history-step", detail="step %d %r gives a different answer after the steps %r than when it is the first call in the process"
                              % (i, st, case["steps"][:i])))
            break
    # property clauses in the state left behind by the whole history
    fresh_modules()
    _run_str_steps(case["rsmi"], case["steps"])
    if parse_ok(case["rsmi"]):
        import synkit.IO.chem_converter as cc
        G, H = cc.rsmi_to_graph(case["rsmi"])
        if G is not None and H is not None:
            f2, _ = string_clauses(case["rsmi"], G, H)
            for f in f2:
                f["detail"] = "after the history %r: %s" % (case["steps"], f["detail"])
            fails += f2
    fresh_modules()
    return fails[:3]


# ------------------------------------------------------------------ graph-pair histories

def _apply_edit(X, what):
    """in-place edit of a networkx graph; `what` = ["node", n, key, value] | ["order", u, v, o] | ["add_edge", u, v, o] |
    ["del_edge", u, v] | ["del_node", n]"""
    k = what[0]
    if k == "node":
        X.nodes[what[1]][what[2]] = what[3]
    elif k == "order":
        X[what[1]][what[2]]["order"] = what[3]
    elif k == "add_edge":
        X.add_edge(what[1], what[2], order=what[3])
    elif k == "del_edge":
        X.remove_edge(what[1], what[2])
    elif k == "del_node":
        X.remove_node(what[1])
    else:
        raise ValueError(k)


def _construct(G, H, st):
    from synkit.Graph.ITS.its_construction import ITSConstruction
    o = st.get("opts")
    if o is None:
        return ITSConstruction.ITSGraph(G, H)
    if st.get("pos") and o.get("api", "ITSGraph") == "ITSGraph":
        # the wrapper's positional order: ITSGraph(G, H, ignore_aromaticity, attributes_defaults, balance_its, store)
        return ITSConstruction().ITSGraph(G, H, bool(o.get("ia")), (dict(o["dflt"]) if o.get("dflt") else None), bool(o.get("bal")), bool(o.get("store")))
    return E.call_construct(G, H, o)


def _obs_its_any(I, st):
    return E.obs_its_store(I) if (st.get("opts") or {}).get("store") else E.obs_its(I)


def _run_pair_steps(G, H, steps):
    from synkit.Graph.ITS.its_decompose import its_decompose
    out, last, last_st, last_dec = [], None, None, None
    for st in steps:
        if st["op"] == "its":
            last, last_st = _construct(G, H, st), st
            out.append(_obs_its_any(last, st))
        elif st["op"] == "dec":
            last_dec = its_decompose(last)
            out.append([E.obs_mgraph(last_dec[0]), E.obs_mgraph(last_dec[1])])
        elif st["op"] == "edit":
            _apply_edit(G if st["side"] == "G" else H, st["what"])
            out.append([])
        elif st["op"] == "spoil":
            # the caller edits what it got back: drop a node of the ITS, overwrite labels, clear the decomposed graphs
            if last is not None and last.number_of_nodes():
                n = sorted(last.nodes)[0]
                for k in list(last.nodes[n]):
                    last.nodes[n][k] = None
                last.remove_node(sorted(last.nodes)[-1])
                last.remove_edges_from(list(last.edges))
            if last_dec is not None:
                for X in last_dec:
                    X.clear()
            out.append([])
        else:
            raise ValueError(st["op"])
    return out


def obs_hist_pair(case):
    fresh_modules()
    return _run_pair_steps(E.to_nx(case["G"]), E.to_nx(case["H"]), case["steps"])


def coq_hist_pair(case):
    """the model is pure: every 'its' step is evaluated on the value G, H have at that moment"""
    G, H = E.to_nx(case["G"]), E.to_nx(case["H"])
    terms, last = [], None
    for st in case["steps"]:
        if st["op"] == "its":
            g, h = E.coq_mgraph(E.from_nx(G)), E.coq_mgraph(E.from_nx(H))
            o = st.get("opts")
            if o is None:
                last = ("its_construct %s %s" % (g, h), "its_decompose")
                terms.append("(tits (%s))" % last[0])
            elif o.get("store"):
                last = ("its_construct_S %s %s %s" % (E.coq_opts(o), g, h), "its_decompose_S")
                terms.append("(titsS (%s))" % last[0])
            else:
                last = ("its_construct_o %s %s %s" % (E.coq_opts(o), g, h), "its_decompose")
                terms.append("(tits (%s))" % last[0])
        elif st["op"] == "dec":
            terms.append("(L [tmgraph (fst (%s (%s))); tmgraph (snd (%s (%s)))])" % (last[1], last[0], last[1], last[0]))
        elif st["op"] == "edit":
            _apply_edit(G if st["side"] == "G" else H, st["what"])
            terms.append("(L [])")
        elif st["op"] == "spoil":
            terms.append("(L [])")
    return "(L [%s])" % "; ".join(terms)


def oracle_hist_pair(case, graph_clauses, balanced_pair):
    """every 'its' step is judged by the property's clauses on copies of the graphs as they are at that step"""
    fails = []
    fresh_modules()
    G, H = E.to_nx(case["G"]), E.to_nx(case["H"])
    seq = _run_pair_steps(G, H, case["steps"])               # the shared-object run (leaves the library in the history's state)
    from .. import tok
    G2, H2 = E.to_nx(case["G"]), E.to_nx(case["H"])
    for i, st in enumerate(case["steps"]):
        if st["op"] == "edit":
            _apply_edit(G2 if st["side"] == "G" else H2, st["what"])
        if st["op"] == "its":
            fresh_modules()
            alone = _obs_its_any(_construct(copy.deepcopy(G2), copy.deepcopy(H2), st), st)
            if tok.norm(tok.obs_to_tok(alone)) != tok.norm(tok.obs_to_tok(seq[i])):
                fails.append(dict(clause="history-step", detail="step %d %r on the shared objects differs from the same call on fresh copies after %r"
                                  % (i, st, case["steps"][:i])))
                break
            if balanced_pair(G2, H2):
                f2 = graph_clauses(copy.deepcopy(G2), copy.deepcopy(H2), st.get("opts"))
                for f in f2:
                    f["detail"] = "history step %d: %s" % (i, f["detail"])
                fails += f2
    fresh_modules()
    return fails[:3]


# ------------------------------------------------------------------ generators

REDUCED = (["element", "atom_map"], ["element"], ["atom_map", "element", "charge"], ["hcount", "element", "aromatic", "charge"],
           ["neighbors", "atom_map", "charge", "hcount", "aromatic", "element"],          # a permutation of the default list
           ["element", "element", "atom_map", "hcount"], [])
EXTENDED = (SIX + ["radical"], ["element", "atom_map", "in_ring", "hybridization"], SIX + ["no_such_attribute"])


def gen_hist_str(rsmis, rng, count):
    cases = []
    for k in range(count):
        r = rsmis[k % len(rsmis)]
        z = rng.random()
        na = rng.choice(REDUCED) if z < 0.75 else rng.choice(EXTENDED)
        ea = rng.choice(("default", [], ["order"], ["order", "in_ring"])) if rng.random() < 0.5 else "default"
        drop, use = rng.choice(((True, True), (True, True), (True, True), (True, True), (False, True), (False, False), (True, False)))
        first = dict(op="r2g", drop=drop, use=use, node_attrs=list(na), edge_attrs=ea if ea == "default" else list(ea), pos=rng.random() < 0.4)
        dflt = dict(op="r2g", drop=True, use=True, node_attrs="default", edge_attrs="default", pos=False)
        shape = rng.choice(("sel-then-default", "default-then-sel", "sel-its-rsmi", "twice", "flags", "modes", "modes"))
        if shape == "sel-then-default":
            steps = [first, dflt, dict(op="r2i"), dict(op="i2r")]
        elif shape == "default-then-sel":
            steps = [dflt, first, dflt]
        elif shape == "sel-its-rsmi":
            steps = [first, dict(op="r2i"), dict(op="i2r"), dict(op="r2i")]
        elif shape == "modes":
            ms = [dict(op="r2i", mode=m) for m in rng.sample(("core", "eh", "default", "default"), 3)]
            steps = ms + [dict(op="r2i"), dict(op="i2r"), dflt]
        elif shape == "twice":
            steps = [dict(op="r2i"), dict(op="i2r"), dict(op="i2r"), dflt]
        else:
            other = dict(first, node_attrs="default", edge_attrs="default")
            steps = [other, dflt, dict(dflt, pos=True), dict(op="r2i")]
        cases.append(dict(kind="hist-str", rsmi=r, steps=steps))
    return cases


def _rand_edit(g, rng, side):
    ids = [n for n, _ in g["nodes"]]
    es = [(u, v) for u, v, _ in g["edges"]]
    z = rng.random()
    if z < 0.45 or len(ids) < 2:
        n = rng.choice(ids)
        key, val = rng.choice((("hcount", rng.choice((0, 1, 2, 3, 11))), ("charge", rng.choice((0, 1, -1, -2))),
                               ("aromatic", rng.random() < 0.5), ("element", rng.choice(("C", "N", "H", "Cl")))))
        return dict(op="edit", side=side, what=["node", n, key, val])
    if z < 0.7 and es:
        u, v = rng.choice(es)
        return dict(op="edit", side=side, what=["order", u, v, rng.choice((1, 1.5, 2, 3))])
    if z < 0.85:
        u, v = rng.sample(ids, 2)
        return dict(op="edit", side=side, what=["add_edge", u, v, rng.choice((1, 2, 1.5))])
    if es:
        u, v = rng.choice(es)
        return dict(op="edit", side=side, what=["del_edge", u, v])
    return dict(op="edit", side=side, what=["node", rng.choice(ids), "hcount", 4])


def gen_hist_pair(pairs, rng, count, opts_of):
    """pairs: synthetic (G, H) JSON pairs; the edits keep every node's attribute set (the model's domain)"""
    cases = []
    for k in range(count):
        p = pairs[k % len(pairs)]
        G, H = copy.deepcopy(p["G"]), copy.deepcopy(p["H"])
        shape = rng.choice(("edit-between", "options-then-default", "spoil", "swap", "edit-count"))
        o1 = opts_of(rng)
        if shape == "edit-between":
            steps = [dict(op="its", opts=None), dict(op="dec"), _rand_edit(G, rng, "G"), dict(op="its", opts=None), dict(op="dec"),
                     _rand_edit(H, rng, "H"), dict(op="its", opts=o1, pos=rng.random() < 0.5), dict(op="dec")]
        elif shape == "options-then-default":
            steps = [dict(op="its", opts=o1, pos=rng.random() < 0.5), dict(op="dec"), dict(op="its", opts=None), dict(op="dec"),
                     dict(op="its", opts=opts_of(rng), pos=True), dict(op="dec")]
        elif shape == "spoil":
            steps = [dict(op="its", opts=None), dict(op="dec"), dict(op="spoil"), dict(op="its", opts=None), dict(op="dec"),
                     dict(op="its", opts=o1), dict(op="spoil"), dict(op="its", opts=o1), dict(op="dec")]
        elif shape == "swap":
            steps = [dict(op="its", opts=None), dict(op="dec"), _rand_edit(G, rng, "G"), dict(op="its", opts=o1), dict(op="dec")]
            flip = [dict(st, side=("H" if st["side"] == "G" else "G")) if st["op"] == "edit" else st for st in steps]
            cases.append(dict(kind="hist-pair", G=copy.deepcopy(H), H=copy.deepcopy(G), steps=flip))   # the same values, arguments swapped
        else:
            ids = [n for n, _ in G["nodes"]]
            n = rng.choice(ids)
            steps = [dict(op="its", opts=None), dict(op="dec"), dict(op="edit", side="G", what=["del_node", n]),
                     dict(op="edit", side="H", what=["del_node", n]), dict(op="its", opts=None), dict(op="dec")]
        cases.append(dict(kind="hist-pair", G=G, H=H, steps=steps))
    return cases
