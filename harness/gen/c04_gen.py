"""C04 helpers: well-formedness precondition of a mapped reaction, atom-map renumbering and SMILES rewriting driven
by the harness PRNG, the hydrogen-consistency predicate, graph-level "regenerated" comparison.

Everything that touches synkit / networkx / rdkit is imported inside functions.
"""
from . import c03_common as K


# ------------------------------------------------------------------ parsing / precondition

def _parse_side(s):
    from rdkit import Chem
    p = Chem.SmilesParserParams()
    p.removeHs = False
    p.sanitize = True
    return Chem.MolFromSmiles(s, p)


def wellformed(rsmi):
    """(ok, reason): the reaction parses, has no empty fragment, every atom carries a distinct positive atom-map
    number and both sides carry the same set of numbers with the same elements (balanced, mapped)."""
    if not isinstance(rsmi, str) or rsmi.count(">>") != 1:
        return False, "not a reaction"
    a, b = rsmi.split(">>")
    if not a or not b or any(f == "" for f in a.split(".")) or any(f == "" for f in b.split(".")):
        return False, "empty fragment"
    try:
        ma, mb = _parse_side(a), _parse_side(b)
    except Exception:
        return False, "unparsable"
    if ma is None or mb is None:
        return False, "unparsable"
    da, db = {}, {}
    for m, d in ((ma, da), (mb, db)):
        for at in m.GetAtoms():
            k = at.GetAtomMapNum()
            if k <= 0 or k in d:
                return False, "unmapped or repeated atom map"
            d[k] = at.GetSymbol()
    if da != db:
        return False, "unbalanced"
    return True, ""


def rewrite(rsmi, rng, renumber=True, reorder=True):
    """An atom-map renumbering (random bijection of the map numbers onto 1..n, sometimes shifted) followed by a
    SMILES rewriting (random atom order inside every side, hence random fragment order and random traversal),
    both derived from `rng` only."""
    from rdkit import Chem
    a, b = rsmi.split(">>")
    ma, mb = _parse_side(a), _parse_side(b)
    maps = sorted(at.GetAtomMapNum() for at in ma.GetAtoms())
    if renumber:
        shift = rng.choice([0, 0, rng.randint(1, 40), rng.randint(95, 900)])     # map numbers with 2 and 3 digits
        new = list(range(1 + shift, len(maps) + 1 + shift))
        rng.shuffle(new)
        ren = dict(zip(maps, new))
    else:
        ren = {k: k for k in maps}
    out = []
    for m in (ma, mb):
        for at in m.GetAtoms():
            at.SetAtomMapNum(ren[at.GetAtomMapNum()])
        if reorder:
            order = list(range(m.GetNumAtoms()))
            rng.shuffle(order)
            m = Chem.RenumberAtoms(m, order)
            s = Chem.MolToSmiles(m, canonical=False)
        else:
            s = Chem.MolToSmiles(m, canonical=False)
        out.append(s)
    return ">>".join(out)


# ------------------------------------------------------------------ hydrogen consistency / centre carries the change

def classify(its, rc):
    """From the full ITS and its centre (implementation's own graphs):
       explicit   : the centre contains explicit hydrogen atoms
       implicit   : some atom has different hydrogen counts on the two sides (a hydrogen change written implicitly)
       outside    : atoms outside the centre whose charge or hydrogen count changes (the centre cannot carry it)"""
    explicit = any(d["typesGH"][0][0] == "H" for _, d in rc.nodes(data=True))
    implicit = any(d["typesGH"][0][2] != d["typesGH"][1][2] for _, d in its.nodes(data=True))
    outside = sorted(n for n, d in its.nodes(data=True)
                     if n not in rc and (d["typesGH"][0][2] != d["typesGH"][1][2] or d["typesGH"][0][3] != d["typesGH"][1][3]))
    return explicit, implicit, outside


def consistent_H(explicit, implicit):
    """all centre hydrogens explicit (then no implicit count changes), or none explicit"""
    return not (explicit and implicit)


def mode_of(explicit):
    return "E" if explicit else "I"


# ------------------------------------------------------------------ graph-level comparison

def side_sig(g):
    """molecule graph -> (sorted [(id, element, hcount, charge)], sorted [(u, v, 2*order)]) with explicit hydrogens
    kept as atoms"""
    ns = sorted((n, d.get("element"), int(d.get("hcount", 0)), int(d.get("charge", 0))) for n, d in g.nodes(data=True))
    es = sorted((min(u, v), max(u, v), K.half(d["order"])) for u, v, d in g.edges(data=True))
    return ns, es


def folded_sig(g):
    """the same in implicit-hydrogen normal form: hydrogen atoms that have a heavy neighbour are folded into the
    count of that neighbour; hydrogens without heavy neighbour (H2, H+) are counted as a multiset of their component
    shapes (their ids are not comparable: _explicit_h invents new ids)"""
    isH = {n: d.get("element") == "H" for n, d in g.nodes(data=True)}
    hc = {n: int(d.get("hcount", 0)) for n, d in g.nodes(data=True) if not isH[n]}
    free = set()
    for n in g.nodes:
        if not isH[n]:
            continue
        heavy = [u for u in g.neighbors(n) if not isH[u]]
        if heavy:
            for u in heavy:
                hc[u] += 1
        else:
            free.add(n)
    ns = sorted((n, g.nodes[n].get("element"), hc[n], int(g.nodes[n].get("charge", 0))) for n in hc)
    es = sorted((min(u, v), max(u, v), K.half(d["order"])) for u, v, d in g.edges(data=True) if not isH[u] and not isH[v])
    nfe = sum(1 for u, v in g.edges() if u in free and v in free)
    return ns, es, (len(free), nfe)
