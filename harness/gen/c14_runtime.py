"""C14 runtime part: the same job under different worker counts (run as `python -m harness.gen.c14_runtime`,
case as JSON on stdin, list of [label, value] as JSON on the last stdout line)."""
import json
import sys


def _runtime(case):
    """Returns list of [label, value] - all values must be equal to the first one."""
    what = case["what"]
    vals = []
    if what == "batch_jobs":
        from synkit.Synthesis.Reactor.batch_reactor import BatchReactor
        for nj, pr, rj in case["jobs"]:
            br_ = BatchReactor(list(case["subs"]), entry_n_jobs=nj, parallel_rules=pr, rule_n_jobs=rj,
                               cache_enabled=case.get("cache", True), cache_maxsize=case.get("max", 32768))
            res = br_.fit(list(case["rules"]), invert=case["inv"])
            vals.append(["entry_jobs=%d parallel_rules=%s rule_jobs=%d" % (nj, pr, rj), res])
    elif what == "validate":
        from synkit.Chem.Reaction.aam_validator import AAMValidator
        for nj in case["jobs"]:
            res = AAMValidator.validate_smiles([dict(d) for d in case["data"]], ground_truth_col="gt", mapped_cols=["m1", "m2"],
                                               check_method=case.get("method", "RC"), n_jobs=nj)
            vals.append(["n_jobs=%d" % nj, json.loads(json.dumps(res, default=str))])
    elif what == "balance":
        from synkit.Chem.Reaction.balance_check import BalanceReactionCheck
        for nj in case["jobs"]:
            b, u = BalanceReactionCheck(n_jobs=nj).dicts_balance_check([dict(d) for d in case["data"]], rsmi_column="reactions")
            vals.append(["n_jobs=%d" % nj, [b, u]])
    elif what == "syncrn":
        from synkit.CRN.DAG.syncrn import SynCRN
        for par, mw in case["jobs"]:
            crn = SynCRN(rules=list(case["rules"]), repeats=case["repeats"], explicit_h=False, implicit_temp=True,
                         strategy=case.get("strategy"))
            G = crn.build(list(case["seeds"]), parallel=par, max_workers=mw)
            vals.append(["parallel=%s max_workers=%s" % (par, mw),
                         [[[n, sorted((k, str(v)) for k, v in d.items())] for n, d in G.nodes(data=True)],
                          [[u, v, sorted((k, str(x)) for k, x in d.items())] for u, v, d in G.edges(data=True)]]])
    else:
        raise AssertionError(what)
    return vals




if __name__ == "__main__":
    import logging
    import warnings
    warnings.filterwarnings("ignore")
    logging.disable(logging.CRITICAL)
    try:
        from rdkit import RDLogger
        RDLogger.DisableLog("rdApp.*")
    except Exception:
        pass
    case = json.loads(sys.stdin.read())
    out = _runtime(case)
    sys.stdout.write("\n" + json.dumps(out, default=str) + "\n")
