"""C14 runtime part: the same job under different worker counts (run as `python -m harness.gen.c14_runtime`,
case as JSON on stdin, list of [label, value] as JSON on the last stdout line)."""
import json
import sys


def _runtime(case):
    """Returns list of [label, value] - all values must be equal to the first one."""
    what = case["what"]
    vals = []
    if what == "batch_jobs":
        from synkit.Synthesis.Reactor.batch_reactor import BatchReactor
        opts = dict(case.get("opts", {}))          # explicit_h / implicit_temp / strategy / dedupe: must reach every worker process
        key = "syn_bw" if case["inv"] else "syn_fw"
        for nj, pr, rj in case["jobs"]:
            if case.get("dict_entries"):
                data = [{"smi": s_, "row": i} for i, s_ in enumerate(case["subs"])]
                br_ = BatchReactor(data, "smi", entry_n_jobs=nj, parallel_rules=pr, rule_n_jobs=rj,
                                   cache_enabled=case.get("cache", True), cache_maxsize=case.get("max", 32768), **opts)
            else:
                br_ = BatchReactor(list(case["subs"]), entry_n_jobs=nj, parallel_rules=pr, rule_n_jobs=rj,
                                   cache_enabled=case.get("cache", True), cache_maxsize=case.get("max", 32768), **opts)
            res = br_.fit(list(case["rules"]), invert=case["inv"])
            if case.get("twice"):                  # a second fit on the same object (cache filled by the first, shipped to the workers)
                res = [res, br_.fit(list(case["rules"]), invert=case["inv"])]
            vals.append(["entry_jobs=%d parallel_rules=%s rule_jobs=%d" % (nj, pr, rj), res])
        if case.get("single"):
            # the reference of the property text: every entry on its own, rule by rule, fresh SynReactor on fresh graphs
            from synkit.IO import smiles_to_graph, rsmi_to_its
            from synkit.Synthesis.Reactor.syn_reactor import SynReactor
            ref = []
            table = []          # [entry index, rule index, results]: the execute table of the worker model
            for si, s_ in enumerate(case["subs"]):
                flat = []
                for ri, r in enumerate(case["rules"]):
                    one = []
                    try:
                        g = smiles_to_graph(s_, drop_non_aam=False, use_index_as_atom_map=False)
                        one = list(SynReactor(substrate=g, template=rsmi_to_its(r, core=True), invert=case["inv"],
                                              strategy=opts.get("strategy", "bt"), explicit_h=opts.get("explicit_h", True),
                                              implicit_temp=opts.get("implicit_temp", False)).smarts_list)
                    except Exception:
                        pass
                    table.append([si, ri, one])
                    flat += one
            # the literal reference: each entry ALONE through the same public API (single-entry batch, serial, cache off); the
            # rule-by-rule SynReactor results above only feed the worker-process model (mechanism -> correspondence)
            for s_ in case["subs"]:
                one = BatchReactor([s_], entry_n_jobs=1, cache_enabled=False, **opts).fit(list(case["rules"]), invert=case["inv"])
                ref.append(one[0])
            vals.append(["every entry alone (single-entry batch, cache off)", [ref, ref] if case.get("twice") else ref])
            vals.append(["__table__", table])
    elif what == "validate":
        from synkit.Chem.Reaction.aam_validator import AAMValidator
        opts = dict(case.get("opts", {}))
        for nj in case["jobs"]:
            rows = [dict(d) for d in case["data"]]
            if case.get("form") == "df":            # the documented DataFrame input form
                import pandas as pd
                rows = pd.DataFrame(rows, columns=["gt", "m1", "m2"])
            res = AAMValidator.validate_smiles(rows, ground_truth_col="gt", mapped_cols=["m1", "m2"],
                                               check_method=case.get("method", "RC"), n_jobs=nj, **opts)
            vals.append(["n_jobs=%d" % nj, json.loads(json.dumps(res, default=str))])
        # the reference every worker count is compared with: row by row through the single-pair entry point
        ref = []
        for col in ("m1", "m2"):
            rows = [bool(AAMValidator.check_pair(dict(d), col, "gt", case.get("method", "RC"), opts.get("ignore_aromaticity", False),
                                                 opts.get("ignore_tautomers", True))) for d in case["data"]]
            ref.append(rows)
        vals.append(["row-by-row check_pair", [dict(v, results=[bool(x) for x in r]) for v, r in zip(vals[0][1], ref)]])
    elif what == "balance":
        from synkit.Chem.Reaction.balance_check import BalanceReactionCheck
        for nj in case["jobs"]:
            chk = BalanceReactionCheck(n_jobs=nj)
            if case.get("form") == "mixed":
                # parse_input's item kinds in one list: plain strings, dicts with the reaction key, dicts WITHOUT it and foreign
                # values (both silently skipped)
                inp = []
                for d in case["data"]:
                    kd = d["kind"]
                    inp.append(d["reactions"] if kd == "str" else {"reactions": d["reactions"], "n": d["n"]} if kd == "dict"
                               else {"n": d["n"], "rxn": d["reactions"]} if kd == "nokey" else (None if d["n"] % 2 else 17))
                b, u = chk.dicts_balance_check(inp, "reactions") if nj % 2 else chk.dicts_balance_check(inp, rsmi_column="reactions")
            elif case.get("form") == "strings":      # list of plain reaction strings (parse_input wraps each one)
                b, u = chk.dicts_balance_check([d["reactions"] for d in case["data"]])
            elif case.get("form") == "string":     # a single reaction string
                b, u = chk.dicts_balance_check(case["data"][0]["reactions"])
            else:
                b, u = chk.dicts_balance_check([dict(d) for d in case["data"]], rsmi_column="reactions")
            out = [b, u]
            if case.get("second_pass"):
                # the caller edits the RESULT dicts of the first pass (they carry a "balanced" key) and checks them again with the
                # same checker object: every verdict must be recomputed from the reaction that is in the dict now
                again = [dict(d) for d in b + u]
                rs = [d["reactions"] for d in again]
                for d, r in zip(again, rs[1:] + rs[:1]):
                    d["reactions"] = r
                b2, u2 = chk.dicts_balance_check(again, rsmi_column="reactions")
                fresh = BalanceReactionCheck(n_jobs=1).dicts_balance_check(
                    [{k: v for k, v in d.items() if k != "balanced"} for d in again], rsmi_column="reactions")
                out += [b2, u2, [b2, u2] == [fresh[0], fresh[1]]]
            vals.append(["n_jobs=%d" % nj, out])
        if case.get("second_pass"):
            vals.append(["second pass equals a fresh check of the edited dicts", vals[0][1][:4] + [True]])
        # per-row verdicts of the single-reaction entry point (reference for the model; not compared by the oracle)
        vals.append(["__ref__", [bool(BalanceReactionCheck.rsmi_balance_check(d["reactions"])) for d in case["data"]]])
    elif what == "syncrn":
        from synkit.CRN.DAG.syncrn import SynCRN
        for par, mw in case["jobs"]:
            crn = SynCRN(rules=list(case["rules"]), repeats=case["repeats"], explicit_h=False, implicit_temp=True,
                         strategy=case.get("strategy"))
            G = crn.build(list(case["seeds"]), parallel=par, max_workers=mw)
            vals.append(["parallel=%s max_workers=%s" % (par, mw),
                         [[[n, sorted((k, str(v)) for k, v in d.items())] for n, d in G.nodes(data=True)],
                          [[u, v, sorted((k, str(x)) for k, x in d.items())] for u, v, d in G.edges(data=True)]]])
    else:
        raise AssertionError(what)
    return vals




if __name__ == "__main__":
    import logging
    import warnings
    warnings.filterwarnings("ignore")
    logging.disable(logging.CRITICAL)
    try:
        from rdkit import RDLogger
        RDLogger.DisableLog("rdApp.*")
    except Exception:
        pass
    case = json.loads(sys.stdin.read())
    out = _runtime(case)
    sys.stdout.write("\n" + json.dumps(out, default=str) + "\n")
