"""C01 whole-string level (model/C01_Rsmi.v): rsmi.split(">>"), the option handling and failure modes of rsmi_to_graph /
rsmi_to_its, graph_to_rsmi's None, the f"{r}>>{p}" assembly and clean_wildcards of its_to_rsmi.

case kinds
  {"kind": "rs-split", "s": text}                                  the split alone (what rsmi_to_graph hands to smiles_to_graph)
  {"kind": "rs-str", "rsmi": text, "o": [drop, san, use, core, eh], "w": [san, eh, cw]}
        rsmi_to_graph(s, drop, san, use), rsmi_to_its(s, drop, san, use, core, explicit_hydrogen=eh) and, on a full ITS,
        its_to_rsmi(its, san, eh, cw)
RDKit enters the model as two finite tables recorded here with plain RDKit calls (reader) and on the implementation's own
writer calls (writer: digest of the RWMol content -> string that MolToSmiles returned, or None).
"""
from ..tok import S, obs_to_tok, thash
from . import c01_enc as E
from . import c01_str as T


def printable(s):
    return all(32 <= ord(c) < 127 for c in s)


def cstr(s):
    assert printable(s), s
    return '"%s"%%string' % s.replace('"', '""')


# ------------------------------------------------------------------ implementation side

def _tres(f):
    """run f -> [0, value] | [1] (returned None) | [2] (raised)"""
    try:
        v = f()
    except Exception:
        return [2], None
    if v is None:
        return [1], None
    return [0, v], v


def _obs_its_small(I):
    """mirror of tinode_rs / tiedge: full ITS, explicit-hydrogen ITS or reaction centre"""
    ns = []
    for n, d in I.nodes(data=True):
        known = {"element", "charge", "atom_map", "typesGH", "aromatic", "hcount", "neighbors"}
        odd = sorted(set(d) - known) + sorted("missing:" + k for k in {"element", "charge", "atom_map", "typesGH"} - set(d))
        row = [n, E.elem_code(d.get("element", "?")), E._int(d.get("charge", -99)), E._int(d.get("atom_map", -99)),
               [[E._bool(d["aromatic"]), E._int(d["hcount"])]] if "aromatic" in d and "hcount" in d else [],
               "neighbors" in d, E.obs_nattr(d["typesGH"][0]), E.obs_nattr(d["typesGH"][1])]
        if odd or (("aromatic" in d) != ("hcount" in d)):
            row.append(odd or ["aromatic-xor-hcount"])
        ns.append(row)
    es = []
    for u, v, d in I.edges(data=True):
        oa, ob = d["order"]
        row = [min(u, v), max(u, v), E.half(oa), E.half(ob), E.half(d["standard_order"])]
        odd = sorted(set(d) - {"order", "standard_order", "is_mtg"})
        if d.get("is_mtg", False) is not False:
            odd.append("is_mtg=%r" % (d["is_mtg"],))
        if odd:
            row.append(odd)
        es.append(row)
    return [S(ns), S(es)]


def obs_split(s):
    import synkit.IO.chem_converter as cc
    passed = []
    orig = cc.smiles_to_graph

    def rec(smiles, *a, **k):
        passed.append(smiles)
        return None
    cc.smiles_to_graph = rec
    try:
        cc.rsmi_to_graph(s)
    finally:
        cc.smiles_to_graph = orig
    if len(passed) not in (0, 2):
        return ["unexpected-call-pattern", len(passed)]
    return [s.split(">>"), [passed] if passed else []]


def coq_split(s):
    return "run_split %s" % cstr(s) if printable(s) else None


def _record_writer(cc, f):
    """run f() with GraphToMol / graph_to_smi of chem_converter instrumented -> (result of f, [(san, digest, out)])"""
    rec, table = [], []
    orig_cls, orig_smi = cc.GraphToMol, cc.graph_to_smi

    class Rec(orig_cls):
        def graph_to_mol(self, graph, *a, **k):
            san = k.get("sanitize", a[1] if len(a) > 1 else True)
            try:
                dig = thash(obs_to_tok(T.obs_wmol(orig_cls.graph_to_mol(self, graph.copy(), sanitize=False, use_h_count=True))))
            except Exception:
                dig = None
            rec.append((bool(san), dig))
            return orig_cls.graph_to_mol(self, graph, *a, **k)

    def smi(graph, *a, **k):
        n = len(rec)
        out = orig_smi(graph, *a, **k)
        if len(rec) == n + 1 and rec[-1][1] is not None:
            table.append((rec[-1][0], rec[-1][1], out))
        return out
    cc.GraphToMol, cc.graph_to_smi = Rec, smi
    try:
        return f(), table
    finally:
        cc.GraphToMol, cc.graph_to_smi = orig_cls, orig_smi


def _run(case):
    import synkit.IO.chem_converter as cc
    s = case["rsmi"]
    drop, san, use, core, eh = case["o"]
    wsan, weh, wcw = case["w"]
    passed = []
    orig = cc.smiles_to_graph

    def rec(smiles, *a, **k):
        passed.append(smiles)
        return orig(smiles, *a, **k)
    cc.smiles_to_graph = rec
    try:
        G, H = cc.rsmi_to_graph(s, drop, san, use)
    finally:
        cc.smiles_to_graph = orig
    parts = s.split(">>")
    if passed != (parts if len(parts) == 2 else []):
        return ["unexpected-call-pattern", passed], []
    tj, J = _tres(lambda: cc.rsmi_to_its(s, drop, san, use, core, explicit_hydrogen=eh))
    out = [parts, [E.obs_mgraph(G)] if G is not None else [], [E.obs_mgraph(H)] if H is not None else [],
           [0, _obs_its_small(J)] if J is not None else tj]
    table = []
    if J is not None and not core:
        (tw, _), table = _record_writer(cc, lambda: _tres(lambda: cc.its_to_rsmi(J, wsan, weh, wcw)))
        out.append(tw)
    else:
        out.append([])
    return out, table


def obs_rs(case):
    return _run(case)[0]


def _read_entry(smiles, san, drop):
    """(san, smiles) -> rmol dict or None, with plain RDKit calls (mirror of what smiles_to_graph + MolToGraph read).
    Without sanitisation a getter may raise on an atom (no implicit valence computed): MolToGraph then fails as a whole
    (-> None) unless the atom is skipped before its properties are read (unmapped atom under drop_non_aam)."""
    from rdkit import Chem
    mol = Chem.MolFromSmiles(smiles, sanitize=False)
    if mol is None:
        return None
    if san:
        try:
            Chem.SanitizeMol(mol)
        except Exception:
            return None
    atoms = []
    for a in mol.GetAtoms():
        try:
            atoms.append([a.GetSymbol(), bool(a.GetIsAromatic()), int(a.GetTotalNumHs()), int(a.GetFormalCharge()),
                          int(a.GetAtomMapNum()), sorted(n.GetSymbol() for n in a.GetNeighbors())])
        except Exception:
            if drop and a.GetAtomMapNum() == 0:
                atoms.append([a.GetSymbol(), False, 0, 0, 0, []])
            else:
                return None
    bonds = [[b.GetBeginAtomIdx(), b.GetEndAtomIdx(), E.half(b.GetBondTypeAsDouble())] for b in mol.GetBonds()]
    return {"atoms": atoms, "bonds": bonds}


def coq_rs(case):
    s = case["rsmi"]
    if not printable(s):
        return None
    drop, san, use, core, eh = case["o"]
    wsan, weh, wcw = case["w"]
    parts = s.split(">>")
    rt = []
    if len(parts) == 2:
        for p in parts:
            rm = _read_entry(p, san, drop)
            rt.append("(%s, %s, %s)" % (E.cb(san), cstr(p), "None" if rm is None else "Some %s" % T.coq_rmol(rm)))
    try:
        _, table = _run(case)
    except Exception:                     # the implementation itself fell over while the writer was recorded: fail closed
        return "L [I 424242]"
    wt = []
    for b, dig, out in table:
        if out is not None and not printable(out):
            return None
        wt.append("(%s, (%d)%%Z, %s)" % (E.cb(b), dig, "None" if out is None else "Some %s" % cstr(out)))
    return "run_rsmi_str [%s] [%s] (RO %s) %s %s %s %s" % ("; ".join(rt), "; ".join(wt), " ".join(E.cb(x) for x in (drop, san, use, core, eh)),
                                                         E.cb(wsan), E.cb(weh), E.cb(wcw), cstr(s))


# ------------------------------------------------------------------ oracle (format of what its_to_rsmi writes)

def oracle_rs(case, well_formed):
    """default reader, default or explicit-hydrogen writer, no clean_wildcards, on a well-formed reaction: what its_to_rsmi
    writes is one string with exactly one '>>' and no other '>' (premise W0 of theorem C01_rsmi_string_roundtrip), and reading
    it again gives an ITS with the same atoms"""
    import synkit.IO.chem_converter as cc
    if case["o"] != [True, True, True, False, False] or case["w"][0] is not True or case["w"][2] or not well_formed(case["rsmi"]):
        return []
    try:
        J = cc.rsmi_to_its(case["rsmi"])
    except Exception:
        return []
    back = cc.its_to_rsmi(J, True, case["w"][1])
    if back is None:
        return []                       # judged by the string oracle of the str-* twins (balanced, fully mapped reactions only)
    if not isinstance(back, str) or back.count(">>") != 1 or back.count(">") != 2:
        return [dict(clause="string-format", detail="its_to_rsmi wrote %r" % (back,))]
    try:
        J2 = cc.rsmi_to_its(back)
    except Exception:
        return [dict(clause="string-format", detail="its_to_rsmi wrote %r, which rsmi_to_its cannot read" % (back,))]
    heavy = {n for n, d in J.nodes(data=True) if d.get("element") != "H"}
    heavy2 = {n for n, d in J2.nodes(data=True) if d.get("element") != "H"}
    if heavy != heavy2:
        return [dict(clause="string-format", detail="non-hydrogen atoms %r read back as %r" % (sorted(heavy), sorted(heavy2)))]
    return []


# ------------------------------------------------------------------ generators

SPLIT_HAND = ["", ">", ">>", ">>>", ">>>>", ">>>>>", "A", "A>>", ">>B", "A>>B", "A>B>C", "A>>>B", "A>>B>>C", "A>>B>", ">A>>B", "A>B>>C",
              "A>>B>C", "A> >B", "A>>>>B", ">>A>>", "A.B>>C.D", "[CH4:1]>>[CH4:1]", "[CH4:1]>[OH2:2]>[CH4:1]", "[CH4:1]>>>[CH4:1]"]

BAD_SIDES = ["C(", "c1ccccc1C(C)(C)(C)(C)C", "[CH5:1]", "[NH5:7]", "C1CC", "[Xx:1]", "c1cc1"]


UNWRITABLE = ["[CH3:1][CH3:2]>>[CH3:1]=[CH3:2]", "[CH3:1]=[CH3:2]>>[CH3:1][CH3:2]", "[OH2:1].[CH4:2]>>[OH2:1][CH4:2]"]


def gen_rs(rsmis, hand, rng, n_split, n_str):
    cases = [dict(kind="rs-split", s=s) for s in SPLIT_HAND]
    pool = [r for r in rsmis if printable(r) and r.count(">>") == 1]
    for k in range(n_split):
        r = rng.choice(pool)
        a, b = r.split(">>")
        z = k % 8
        s = (a + ">" + b, a + ">>>" + b, a + ">>" + b + ">>" + a, a + ">>" + b + ">", ">" + r, a + ">O>" + b, a + "> >" + b, r)[z]
        cases.append(dict(kind="rs-split", s=s))
    dflt_o, dflt_w = [True, True, True, False, False], [True, False, False]
    for i, r in enumerate(hand):                                  # every hand-made reaction: defaults, and one PRNG option draw
        cases.append(dict(kind="rs-str", rsmi=r, o=list(dflt_o), w=list(dflt_w)))
    for r in UNWRITABLE:                                          # read without sanitisation, the sanitising writer refuses one side:
        for w in ([True, False, False], [True, False, True], [False, False, False], [True, True, False], [False, True, True]):
            cases.append(dict(kind="rs-str", rsmi=r, o=[True, False, True, False, False], w=w))     # None, or an exception under clean_wildcards
    for k in range(n_str):
        r = rng.choice(pool) if k % 4 else rng.choice(hand)
        z = rng.random()
        o, w = list(dflt_o), list(dflt_w)
        if z < 0.15:
            pass
        elif z < 0.30:
            o[3] = True                                           # core
            o[4] = rng.random() < 0.5
        elif z < 0.42:
            o[4] = True                                           # explicit_hydrogen
        elif z < 0.54:
            o[1] = False                                          # sanitize=False reader
        elif z < 0.66:
            o[0], o[2] = rng.choice(((False, True), (False, False), (True, False)))
        elif z < 0.80:
            a, b = r.split(">>")
            bad = rng.choice(BAD_SIDES)
            r = rng.choice((a + ">>" + bad, bad + ">>" + b, a + ">" + b, a + ">>" + b + ">>" + a, a + ">>>" + b))
        w = [rng.random() < 0.8, rng.random() < 0.3, rng.random() < 0.3]
        cases.append(dict(kind="rs-str", rsmi=r, o=o, w=w))
    return cases


# ------------------------------------------------------------------ the MolToGraph converter object (model/C01_Conv.v)
# case = {"kind": "conv-hist", "ops": [["t"|"s", drop, use, smiles] | ["g"], ...]}: one converter object, 4-9 calls

def obs_conv(case):
    from synkit.IO.mol_to_graph import MolToGraph
    conv = MolToGraph(node_attrs=T.NODE_ATTRS, edge_attrs=T.EDGE_ATTRS)
    out, mols = [], {}
    for op in case["ops"]:
        try:
            if op[0] == "g":
                out.append([0, E.obs_mgraph(conv.graph)])
            else:
                if op[3] not in mols:                       # the same Mol OBJECT is handed over again when a fragment recurs
                    mols[op[3]] = T.sanitized_mol(op[3])
                mol = mols[op[3]]
                if op[0] == "t":
                    out.append([0, E.obs_mgraph(conv.transform(mol, drop_non_aam=op[1], use_index_as_atom_map=op[2]))])
                else:
                    r = conv.transform_store(mol, op[1], op[2])
                    out.append([1] if r is conv else ["transform_store-did-not-return-self"])
        except (ValueError, RuntimeError):
            out.append([2])
    return out


def coq_conv(case):
    ops = []
    for op in case["ops"]:
        if op[0] == "g":
            ops.append("OpGraph")
        else:
            mol = T.sanitized_mol(op[3])
            if mol is None:
                return None
            ops.append("%s %s %s %s" % ("OpTransform" if op[0] == "t" else "OpStore", E.cb(op[1]), E.cb(op[2]), T.coq_rmol(T.read_rmol(mol))))
    return "run_conv [%s]" % "; ".join(ops)


def gen_conv(rsmis, rng, n):
    frags = []
    for r in rsmis:
        if r.count(">>") == 1:
            for side in r.split(">>"):
                frags += [f for f in side.split(".") if f and len(f) < 120]
    cases = []
    for _ in range(n):
        ops = []
        mine = rng.sample(frags, min(len(frags), 2))        # two fragments per history, so that molecules recur with other flags
        for k in range(rng.randint(4, 9)):
            z = rng.random()
            if z < 0.35:
                ops.append(["g"])
            else:
                drop, use = rng.choice(((True, True), (False, True), (False, False), (True, False)))
                ops.append(["t" if z < 0.65 else "s", drop, use, rng.choice(mine)])
        cases.append(dict(kind="conv-hist", ops=ops))
    return cases


# ------------------------------------------------------------------ GraphToMol on graphs with absent attributes (model/C01_G2M.v)
# case = {"kind": "g2m-abs", "G": json graph (attributes deleted on some nodes / edges), "ibo": bool, "uhc": bool}

def coq_g2m_abs(case):
    def o(x, f):
        return "None" if x is None else "(Some %s)" % f(x)
    ns = []
    for n, a in case["G"]["nodes"]:
        if set(a) - {"element", "aromatic", "hcount", "charge", "neighbors", "atom_map"}:
            return None
        ns.append("(%s, GG %s %s %s %s)" % (E.cN(n), o(a.get("element"), lambda x: "%d%%N" % E.elem_code(x)), o(a.get("charge"), E.cZ),
                                           o(a.get("atom_map"), E.cZ), o(a.get("hcount"), E.cZ)))
    es = ["(%s, %s, %s)" % (E.cN(u), E.cN(v), o(a.get("order"), lambda x: "(%d)" % E.half(x))) for u, v, a in case["G"]["edges"]]
    return "run_g2m_g %s %s (LG [%s] [%s])" % (E.cb(case["ibo"]), E.cb(case["uhc"]), "; ".join(ns), "; ".join(es))


def gen_g2m_abs(ih_cases, rng):
    import copy
    cases = []
    for c in ih_cases:
        G = copy.deepcopy(c["G"])
        for _, a in G["nodes"]:
            for k in ("element", "charge", "atom_map", "hcount"):
                if rng.random() < 0.25:
                    a.pop(k, None)
        for e in G["edges"]:
            if rng.random() < 0.3:
                e[2].pop("order", None)
        cases.append(dict(kind="g2m-abs", G=G, ibo=rng.random() < 0.3, uhc=rng.random() < 0.7))
    return cases


# ------------------------------------------------------------------ the premise of theorems 37 / 41 on real readings
# case = {"kind": "rw-premise", "a": side, "b": the same side re-rooted / with its fragments shuffled (every atom mapped, maps unique)}
# model: rewrittenb sl (reading of a) (reading of b), sl = index renumbering derived from the atom maps (sound for `rewritten`:
# proof/C01_RewriteCheck.v).  implementation: [the same test in Python on the RDKit readings, and - when it holds - whether
# smiles_to_graph gives the same label and bond maps for both strings (the conclusion of theorem 37)]

def _maps_ok(rm):
    ms = [a[4] for a in rm["atoms"]]
    return all(ms) and len(set(ms)) == len(ms)


def _sl(ra, rb):
    pos = {a[4]: i for i, a in enumerate(rb["atoms"])}
    return [pos.get(a[4], len(rb["atoms"])) for a in ra["atoms"]]


def _premise_py(ra, rb, sl):
    n = len(ra["atoms"])
    if len(rb["atoms"]) != n or len(set(sl)) != n or any(s >= n for s in sl):
        return False
    if any(ra["atoms"][i] != rb["atoms"][sl[i]] for i in range(n)):
        return False
    bb = {(i, j, o) for i, j, o in rb["bonds"]}
    for i, j, o in ra["bonds"]:
        if (sl[i], sl[j], o) not in bb and (sl[j], sl[i], o) not in bb:
            return False
    img = {(sl[i], sl[j], o) for i, j, o in ra["bonds"]} | {(sl[j], sl[i], o) for i, j, o in ra["bonds"]}
    return all((i, j, o) in img for i, j, o in rb["bonds"])


def obs_rw_premise(case):
    import synkit.IO.chem_converter as cc
    ma, mb = T.sanitized_mol(case["a"]), T.sanitized_mol(case["b"])
    if ma is None or mb is None:
        return ["unparsable"]
    ra, rb = T.read_rmol(ma), T.read_rmol(mb)
    prem = _premise_py(ra, rb, _sl(ra, rb))
    ga, gb = cc.smiles_to_graph(case["a"], True, True, True), cc.smiles_to_graph(case["b"], True, True, True)
    same = (ga is not None and gb is not None and {n: dict(d) for n, d in ga.nodes(data=True)} == {n: dict(d) for n, d in gb.nodes(data=True)}
            and {frozenset(e[:2]): e[2] for e in ga.edges(data=True)} == {frozenset(e[:2]): e[2] for e in gb.edges(data=True)})
    return [prem, prem and same]


def coq_rw_premise(case):
    ma, mb = T.sanitized_mol(case["a"]), T.sanitized_mol(case["b"])
    if ma is None or mb is None:
        return None
    ra, rb = T.read_rmol(ma), T.read_rmol(mb)
    if not (_maps_ok(ra) and _maps_ok(rb)):
        return None
    sl = "[%s]" % "; ".join("%d%%nat" % s for s in _sl(ra, rb))
    return "(let b := rewrittenb %s %s %s in L [tbool b; tbool b])" % (sl, T.coq_rmol(ra), T.coq_rmol(rb))


def gen_rw_premise(rsmis, rng, n):
    from . import c01_rsmi as R
    sides = []
    for r in rsmis:
        if r.count(">>") == 1:
            sides += r.split(">>")
    cases = []
    rng.shuffle(sides)
    for a in sides:
        if len(cases) >= n:
            break
        try:
            z = rng.random()
            if z < 0.5:
                b = R._reroot_side(a, rng)
            elif z < 0.75:
                fr = a.split(".")
                rng.shuffle(fr)
                b = ".".join(fr)
            else:
                fr = R._reroot_side(a, rng).split(".")
                rng.shuffle(fr)
                b = ".".join(fr)
        except Exception:
            continue
        cases.append(dict(kind="rw-premise", a=a, b=b))
    return cases


# ------------------------------------------------------------------ its_decompose on arbitrary ITS-shaped graphs (model/C01_DecRaw.v)
# case = {"kind": "dec-raw", "nodes": [[id, None | [g5, h5 | None]], ...], "edges": [[u, v, None | [a, b]], ...]}
#   g5 / h5 = [element, aromatic, hcount, charge, neighbors]; None = typesGH absent / empty product tuple / order absent

def _raw_nx(case):
    import networkx as nx
    I = nx.Graph()
    for n, t in case["nodes"]:
        if t is None:
            I.add_node(n, element="C")
        else:
            g, h = t
            I.add_node(n, typesGH=(tuple(g), tuple(h) if h is not None else ()))
    for u, v, o in case["edges"]:
        if o is None:
            I.add_edge(u, v, standard_order=0)
        else:
            I.add_edge(u, v, order=(o[0], o[1]))
    return I


def _obs_ogl(G):
    ns = []
    for n, d in G.nodes(data=True):
        if not d:
            ns.append([n, []])
        else:
            odd = sorted(set(d) - set(E.NODE_KEYS)) + sorted("missing:" + k for k in set(E.NODE_KEYS) - set(d))
            row = [n, E.elem_code(d.get("element", "?")), E._bool(d.get("aromatic", False)), E._int(d.get("hcount", -99)),
                   E._int(d.get("charge", -99)), [], E._int(d.get("atom_map", -99))]
            if odd:
                row.append(odd)
            ns.append([n, [row]])
    es = [[min(u, v), max(u, v), E.half(d["order"])] for u, v, d in G.edges(data=True)]
    return [S(ns), S(es)]


def obs_dec_raw(case):
    from synkit.Graph.ITS.its_decompose import its_decompose
    G, H = its_decompose(_raw_nx(case))
    return [_obs_ogl(G), _obs_ogl(H)]


def coq_dec_raw(case):
    def na(t):
        return E.coq_nattr(t)
    ns = []
    for n, t in case["nodes"]:
        ns.append("(%s, %s)" % (E.cN(n), "None" if t is None else "Some (%s, %s)" % (na(t[0]), "None" if t[1] is None else "Some %s" % na(t[1]))))
    es = []
    for u, v, o in case["edges"]:
        es.append("(%s, %s, %s)" % (E.cN(u), E.cN(v), "None" if o is None else "Some ((%d), (%d))" % (E.half(o[0]), E.half(o[1]))))
    return "run_dec_raw (LG [%s] [%s])" % ("; ".join(ns), "; ".join(es))


def gen_dec_raw(rng, n):
    cases = []
    for _ in range(n):
        k = rng.randint(1, 7)
        ids = rng.sample(range(0, 40), k)

        def tup():
            return [rng.choice(("C", "H", "O", "N", "Cl", "*", "")), rng.random() < 0.2, rng.choice((0, 0, 1, 2, 3)), rng.choice((0, 0, 1, -1)), []]
        nodes = []
        for i in ids:
            z = rng.random()
            nodes.append([i, None if z < 0.2 else [tup(), None if z < 0.4 else tup()]])
        edges = []
        for a in range(k):
            for b in range(a + 1, k):
                if rng.random() < 0.4:
                    u, v = (ids[a], ids[b]) if rng.random() < 0.5 else (ids[b], ids[a])
                    edges.append([u, v, None if rng.random() < 0.15 else [rng.choice((0, 0, 1, 1.5, 2, 3)), rng.choice((0, 0, 1, 1.5, 2))]])
        rng.shuffle(edges)
        cases.append(dict(kind="dec-raw", nodes=nodes, edges=edges))
    return cases


# ------------------------------------------------------------------ the reaction-side hypotheses of the string theorems on real readings
# case = {"kind": "str-prem", "rsmi": r}.  model: reaction_okb (reading of the reactant side) (reading of the product side) - sound for
# rmol_ok, wf, same_nodes, orders_pos, one_parent (proof/C01_PremProof.v); implementation side: the independent reading says
# "maps unique on each side and the same map set on both sides" (then every hypothesis must hold for a sanitised RDKit molecule)

def obs_prem(case):
    from . import c01_rsmi as R
    if case["rsmi"].count(">>") != 1:
        return ["no-split"]
    a, b = case["rsmi"].split(">>")
    A, B = R.read_side(a), R.read_side(b)
    if A is None or B is None:
        return ["unparsable"]
    ok = (not A[3]) and (not B[3]) and set(A[0]) == set(B[0])
    # h_safe on both sides of the ITS (only looked at when the reaction is balanced with unique maps): an atom that is a hydrogen on a
    # side has min(total H on the reactant side, total H on the product side) <= 0
    safe = ok and all((A[0][k][0] != "H" and B[0][k][0] != "H") or min(A[0][k][2], B[0][k][2]) <= 0 for k in A[0])
    return [ok, safe]


def coq_prem(case):
    if case["rsmi"].count(">>") != 1:
        return None
    a, b = case["rsmi"].split(">>")
    ma, mb = T.sanitized_mol(a), T.sanitized_mol(b)
    if ma is None or mb is None:
        return None
    return "run_prem2 %s %s" % (T.coq_rmol(T.read_rmol(ma)), T.coq_rmol(T.read_rmol(mb)))


def gen_prem(strings, rng, unmap):
    cases = []
    for r in strings:
        cases.append(dict(kind="str-prem", rsmi=r))
    for r in strings[:max(10, len(strings) // 4)]:                # duplicated maps / atoms unmapped on one side: the test must say no
        if r.count(">>") == 1:
            a, b = r.split(">>")
            cases.append(dict(kind="str-prem", rsmi=unmap(a, rng) + ">>" + b))
    return cases


# ------------------------------------------------------------------ "same unmapped reactants and products" (proof/C01_Unmapped.v)
# case = {"kind": "str-unm", "rsmi": r}.  model: [unmapped_eqb (reading of r') (reading of r), same for the products] where r' >> p' is what
# its_to_rsmi(rsmi_to_its(r)) wrote - the hypothesis of contract CU, sound for unmapped_eq (theorem C01_unmapped_test_sound).
# implementation side: [the same test in Python on the independent readings, and - when it holds - whether RDKit gives both sides the same
# unmapped form (maps removed, RemoveHs, canonical SMILES of the fragments)], per side: the instance of CU on this case.

def _fold_all_py(X):
    """independent reading (nodes {map: (sym, charge, total H, aromatic)}, edges {frozenset: order}) with every hydrogen that has a
    non-hydrogen neighbour folded into each such neighbour's H count (as implicit_hydrogen with an empty preserve set)"""
    nodes, edges = dict(X[0]), dict(X[1])
    nb = {}
    for e in edges:
        u, v = tuple(e)
        nb.setdefault(u, set()).add(v)
        nb.setdefault(v, set()).add(u)
    gone = {h for h, l in nodes.items() if l[0] == "H" and any(nodes[m][0] != "H" for m in nb.get(h, ()))}
    out = {}
    for n, (sym, ch, th, ar) in nodes.items():
        if n in gone:
            continue
        if sym != "H":
            th += sum(1 for m in nb.get(n, ()) if nodes[m][0] == "H")
        out[n] = (sym, ch, th, ar)
    return out, {e: o for e, o in edges.items() if not (set(e) & gone)}


def _unm_run(case):
    import synkit.IO.chem_converter as cc
    r = case["rsmi"]
    if r.count(">>") != 1 or r.count(">") != 2:
        return None
    try:
        back = cc.its_to_rsmi(cc.rsmi_to_its(r))
    except Exception:
        return None
    if not isinstance(back, str) or back.count(">>") != 1 or back.count(">") != 2:
        return None
    return r.split(">>"), back.split(">>")


def obs_unm(case, unmapped_side):
    from . import c01_rsmi as R
    rr = _unm_run(case)
    if rr is None:
        return ["no-output"]
    out = []
    for s, s2 in zip(*rr):
        A, A2 = R.read_side(s), R.read_side(s2)
        if A is None or A2 is None or A[3] or A2[3]:
            return ["unreadable-or-duplicate-maps"]
        prem = _fold_all_py(A2) == _fold_all_py(A)
        out += [prem and unmapped_side(s2) == unmapped_side(s)]
    return out


def coq_unm(case):
    from . import c01_rsmi as R
    rr = _unm_run(case)
    if rr is None:
        return None
    ms = []
    for s, s2 in zip(*rr):
        A, A2 = R.read_side(s), R.read_side(s2)
        if A is None or A2 is None or A[3] or A2[3]:
            return None
        m, m2 = T.sanitized_mol(s), T.sanitized_mol(s2)
        if m is None or m2 is None:
            return None
        ms += [T.coq_rmol(T.read_rmol(m)), T.coq_rmol(T.read_rmol(m2))]
    return "run_unm %s %s %s %s" % tuple(ms)


def gen_unm(strings):
    return [dict(kind="str-unm", rsmi=r) for r in strings]
