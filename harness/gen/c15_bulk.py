"""C15 round 5 — the bulk entry points inside the history language (model: coq/model/C15_Bulk.v, `run6`).

case = {"kind": "h6-bulk", "n": <#networks>, "k": <#caller side objects>, "ops": [op, ...]}     ops: the language of c15_ext.py, plus
  ["parse", i, form, recs, default_rule, parse_suffix, prefer_suffix]     nets[i].parse_rxns(...)
        form = "plain" (lines) | "tuples" | "tuples3" | "mapping" | "rules" (lines zipped with rules=)
        rec  = [lhs, rhs, suffix_rule|None, explicit_rule|None(, raw_text)]   lhs/rhs = [[label, count], ...]; raw_text replaces the printed line
  ["addstr", i, rec, rule_arg|None, parse_suffix]                         nets[i].add_rxn_from_str(line, rule_arg, parse_rule_from_suffix=...)
The ORACLE replays the same history with every bulk call replaced by the individual add_rxn calls it stands for (one per item, in
order, rule chosen as documented: explicit rule, unless prefer_suffix and a suffix is there; else the suffix; else default_rule) on a
second set of networks and demands equal public state after every op — repeated lines and repeated reactions under different rules
included — and judges the replayed history with the store oracle of c15_ext.
"""
from ..coqrun import cstr, cnat, cbool, clist, cpair, copt
from . import c15_ext as X

ERRC = {None: 0, "KeyError": 1, "ValueError": 2, "IndexError": 4}


def line_of(rec):
    if len(rec) > 4 and rec[4] is not None:
        return rec[4]

    def side(sd):
        return " + ".join(s if c == 1 else "%d%s" % (c, s) for s, c in sd) if sd else "∅"
    txt = "%s >> %s" % (side(rec[0]), side(rec[1]))
    if rec[2] is not None:
        txt += " | rule=%s" % rec[2]
    return txt.replace("∅", "")          # the empty side is printed as nothing (ASCII only in these cases)


def _container(form, recs):
    """(positional argument, extra kwargs, effective (line, rule) items)"""
    items = [(line_of(r), r[3]) for r in recs]
    if form == "plain":
        return [l for l, _ in items], {}, [(l, None) for l, _ in items]
    if form == "mapping":
        d = {}
        for l, r in items:
            d[l] = r
        return d, {}, list(d.items())
    if form == "rules":
        return [l for l, _ in items], {"rules": [r for _, r in items]}, items
    if form == "tuples3":
        return [(l, r, "extra") for l, r in items], {}, items
    return [(l, r) for l, r in items], {}, items


def _apply6(nets, pool, op):
    k = op[0]
    if k == "parse":
        _, i, form, recs, dr, ps, pf = op
        arg, extra, _ = _container(form, recs)
        try:
            nets[i].parse_rxns(arg, default_rule=dr, parse_rule_from_suffix=ps, prefer_suffix=pf, **extra)
            return None, None
        except (KeyError, ValueError, IndexError) as ex:
            return type(ex).__name__, None
    if k == "addstr":
        _, i, rec, rule_arg, ps = op
        try:
            e = nets[i].add_rxn_from_str(line_of(rec), rule_arg, parse_rule_from_suffix=ps)
            return None, e.id
        except (KeyError, ValueError, IndexError) as ex:
            return type(ex).__name__, None
    return X.apply2(nets, pool, op)


def impl6(case):
    from synkit.CRN.Hypergraph.hypergraph import CRNHyperGraph
    from synkit.CRN.Hypergraph.rxn import RXNSide
    nets = [CRNHyperGraph() for _ in range(case["n"])]
    pool = [RXNSide() for _ in range(case.get("k", 0))]
    out = []
    for op in case["ops"]:
        er, ans = _apply6(nets, pool, op)
        out.append([ERRC[er], ans, [X.net_obs(H, False) for H in nets], [dict(p.to_dict()) for p in pool]])
    return out


def _term(op):
    k = op[0]
    if k == "parse":
        _, i, form, recs, dr, ps, pf = op
        _, _, eff = _container(form, recs)
        return "BParse %s %s %s %s %s" % (cnat(i), clist([cpair(cstr(l), copt(None if r is None else cstr(r))) for l, r in eff]),
                                          cstr(dr), cbool(ps), cbool(pf))
    if k == "addstr":
        _, i, rec, rule_arg, ps = op
        return "BAddStr %s %s %s %s" % (cnat(i), cstr(line_of(rec)), copt(None if rule_arg is None else cstr(rule_arg)), cbool(ps))
    return "B2 (%s)" % X.op_term(op)


def coq_case6(case):
    base = dict(case, ops=[o for o in case["ops"] if o[0] not in ("parse", "addstr")])
    if not X.in_model_domain(base):
        return None
    for o in case["ops"]:
        if o[0] in ("parse", "addstr"):
            recs = o[3] if o[0] == "parse" else [o[2]]
            if not all(X._ascii(line_of(r)) and (r[3] is None or X._ascii(r[3])) for r in recs):
                return None
    return "run6 %s %s %s" % (cnat(case["n"]), cnat(case.get("k", 0)), clist([_term(o) for o in case["ops"]]))


def _expected_rule(suffix, explicit, dr, ps, pf):
    if explicit is not None:
        return suffix if (pf and ps and suffix is not None) else explicit
    if ps and suffix is not None:
        return suffix
    return dr


def translate(case):
    """the same history with every bulk call replaced by individual add_rxn calls; None when an item is outside the structured
    form the translation understands (raw text, or a suffix on a path that does not parse suffixes)"""
    out = []
    for op in case["ops"]:
        if op[0] == "parse":
            _, i, form, recs, dr, ps, pf = op
            _, _, eff = _container(form, recs)
            by_line = {}
            for r in recs:
                by_line[line_of(r)] = r          # mapping form: a repeated line is ONE key (Python dict), its last rule wins
            group = []
            for line, explicit in eff:
                r = by_line[line]
                if len(r) > 4 and r[4] is not None:
                    return None
                if r[2] is not None and not (ps and (explicit is None or pf)):
                    return None
                group.append(["add", i, r[0], r[1], _expected_rule(r[2], explicit, dr, ps, pf), None])
            out.append(group)
        elif op[0] == "addstr":
            _, i, r, rule_arg, ps = op
            if (len(r) > 4 and r[4] is not None) or (r[2] is not None and not ps):
                return None
            out.append([["add", i, r[0], r[1], rule_arg if rule_arg is not None else (r[2] if r[2] is not None else "r"), None]])
        else:
            out.append([op])
    return out


def oracle6(case):
    from synkit.CRN.Hypergraph.hypergraph import CRNHyperGraph
    from synkit.CRN.Hypergraph.rxn import RXNSide
    tr = translate(case)
    if tr is None:
        return []
    flat = [o for g in tr for o in g]
    fails = list(X.oracle2(dict(kind="h2-bulk-replay", n=case["n"], k=case.get("k", 0), views=False, lite=False, skip=0, ops=flat)))
    if fails:
        for f in fails:
            f["detail"] = "replayed with individual add_rxn calls: " + f.get("detail", "")
        return fails[:3]
    A = [CRNHyperGraph() for _ in range(case["n"])]
    B = [CRNHyperGraph() for _ in range(case["n"])]
    pa = [RXNSide() for _ in range(case.get("k", 0))]
    pb = [RXNSide() for _ in range(case.get("k", 0))]
    for t, (op, group) in enumerate(zip(case["ops"], tr)):
        era, _ = _apply6(A, pa, op)
        erb = None
        for g in group:
            erb, _ = X.apply2(B, pb, g)
            if erb is not None:
                break
        sa = [X._snapshot(H)[:5] for H in A]
        sb = [X._snapshot(H)[:5] for H in B]
        if sa != sb or (era is None) != (erb is None):
            return [dict(clause="bulk-equals-individual-adds",
                         detail="op %d %r (error %r) differs from the %d individual add_rxn call(s) it stands for (error %r): stored ids %r vs %r"
                                % (t, op, era, len(group), erb, [list(H.edges) for H in A], [list(H.edges) for H in B]))]
    return []


# ------------------------------------------------------------------ generators
P = X.P
RECS = [
    [P(("A", 1)), P(("B", 1)), None, None], [P(("A", 1)), P(("B", 1)), "R1", None], [P(("A", 2), ("B", 1)), P(("C", 1)), None, "q"],
    [P(("C", 12)), P(("A", 1)), "r", None], [P(("B", 1)), [], None, "r"], [[], P(("A", 3)), None, None], [P(("A", 1)), P(("A", 1), ("D", 1)), None, "R1"],
]


def _rec(rng, ps, pf):
    r = [list(x) if isinstance(x, list) else x for x in rng.choice(RECS)]
    explicit = rng.choice([None, None, "q", "R1", "r", ""])
    suffix = rng.choice([None, "R1", "r", "S"]) if (ps and (explicit is None or pf)) else None
    return [r[0], r[1], suffix, explicit]


def gen_cases6(tier, rng):
    cases = []
    pre = [["add", 0, P(("A", 1)), P(("B", 1)), "r", None], ["add", 0, P(("B", 1)), P(("C", 1)), "r", "r_3"],      # r_1; a caller-chosen look-alike r_3
           ["add", 1, P(("A", 1)), P(("B", 1)), "q", None]]
    dup = [[P(("A", 1)), P(("B", 1)), None, "q"], [P(("A", 1)), P(("B", 1)), None, "R1"], [P(("A", 1)), P(("B", 1)), None, "q"],
           [P(("B", 1)), P(("C", 1)), None, None], [P(("A", 1)), P(("B", 1)), None, None]]
    # the same transformation under two rules, a repeated line, a line equal to a stored reaction: every input form, every flag pair
    for form in ("tuples", "tuples3", "mapping", "rules"):
        for ps in (True, False):
            for pf in (True, False):
                cases.append(dict(kind="h6-bulk", n=2, k=0, ops=pre + [["parse", 0, form, dup, "dflt", ps, pf], ["q", 0, "len"],
                                                                       ["add", 0, P(("C", 1)), P(("D", 1)), "q", None], ["rmrxn", 0, "q_1"],
                                                                       ["parse", 0, form, dup[:2], "r", ps, pf], ["merge", 1, 0, True]]))
    plain = [[r[0], r[1], None, None] for r in dup] + [[P(("A", 1)), P(("B", 1)), "r", None], [P(("A", 1)), P(("B", 1)), "R1", None]]
    for ps in (True, False):
        recs = plain if ps else plain[:5]
        cases.append(dict(kind="h6-bulk", n=2, k=0, ops=pre + [["parse", 0, "plain", recs, "dflt", ps, False], ["parse", 1, "plain", recs[:3], "r", ps, True],
                                                               ["merge", 0, 1, False], ["copy", 0, 1], ["parse", 1, "plain", recs[:2], "q", ps, False]]))
    # a raising line in the middle (the lines before it stay), raw text
    cases.append(dict(kind="h6-bulk", n=2, k=0, ops=pre + [["parse", 0, "tuples", [dup[0], [[], [], None, None, "no arrow here"], dup[1]], "r", True, False],
                                                           ["parse", 0, "rules", [dup[0], [[], [], None, "q"], dup[1]], "r", True, False],
                                                           ["addstr", 0, [[], [], None, None, "A + * >> B"], None, True], ["q", 0, "len"]]))
    for m in ("addstr",):
        for rec in RECS:
            for rule_arg in (None, "q", ""):
                ps = rec[2] is not None or rule_arg is None
                cases.append(dict(kind="h6-bulk", n=2, k=0, ops=pre + [["addstr", 0, rec, rule_arg, ps], ["addstr", 0, rec, rule_arg, ps], ["q", 0, "iter", "iter"]]))
    muts = [m for m in X.mutators() if m[0] in ("add", "addany", "rmrxn", "rmsp", "merge", "copy", "mol", "molmap")]
    for _ in range(80 if tier == "quick" else 800):
        ops = list(pre)
        for _ in range(rng.randint(2, 8)):
            z = rng.random()
            if z < 0.45:
                ps, pf = rng.random() < 0.7, rng.random() < 0.4
                recs = [_rec(rng, ps, pf) for _ in range(rng.randint(0, 5))]
                if recs and rng.random() < 0.5:
                    recs.append(list(recs[0]))                                  # a repeated item
                form = rng.choice(["tuples", "tuples", "tuples3", "mapping", "rules"])
                if all(r[3] is None for r in recs) and rng.random() < 0.5:
                    form = "plain"
                ops.append(["parse", rng.randrange(2), form, recs, rng.choice(["r", "dflt", "q"]), ps, pf])
            elif z < 0.6:
                ps = rng.random() < 0.7
                rec = _rec(rng, ps, False)
                ops.append(["addstr", rng.randrange(2), [rec[0], rec[1], rec[2] if ps else None, None], rng.choice([None, None, "q", "r_1"]), ps])
            else:
                ops.append(rng.choice(muts))
        cases.append(dict(kind="h6-bulk", n=2, k=2, ops=ops))
    return cases
