"""Generators for C11 (automorphisms / orbits / WL estimate / de-duplication / pruning).
No synkit import at module level."""
import copy
import os

REPO = os.environ.get("VERIF_REPO", "/repo")


# ------------------------------------------------------------------ a bound on the work of ONE call into the implementation

class CaseTimeout(BaseException):
    """the call did not finish within its CPU budget.  A BaseException: the broad `except Exception` clauses of the library and of the
    adapter must not swallow it (harness/props/C11.py turns it into an ordinary exception at the boundary of impl())"""


class cpu_limit:
    """`with cpu_limit(secs):` raises CaseTimeout inside the block once the PROCESS has used `secs` more CPU seconds (user + sys;
    ITIMER_PROF - independent of the load of the machine).  Only the outermost block arms the timer; outside the main thread, or
    without setitimer, the block runs unbounded.  Why: a changed implementation may not terminate on an input (Automorphism that
    stops excluding component swaps enumerates 12! maps on twelve isolated atoms) - the stage limit would then be the only bound,
    every other case of the run would be lost with it, and shrinking would call the oracle on such inputs over and over."""
    depth = 0

    def __init__(self, secs):
        self.secs = secs
        self.armed = False

    def __enter__(self):
        import signal
        import threading
        cpu_limit.depth += 1
        if cpu_limit.depth == 1 and hasattr(signal, "setitimer") and threading.current_thread() is threading.main_thread():
            def _raise(signum, frame):
                raise CaseTimeout("no answer within %g CPU-s" % self.secs)
            self.old = signal.signal(signal.SIGPROF, _raise)
            signal.setitimer(signal.ITIMER_PROF, self.secs, 1.0)      # fires again every CPU-second until the block is left
            self.armed = True
        return self

    def __exit__(self, *exc):
        import signal
        cpu_limit.depth -= 1
        if self.armed:
            signal.setitimer(signal.ITIMER_PROF, 0)
            signal.signal(signal.SIGPROF, self.old)
        return False

from . import graphs as GG

NODE5 = [{"element": e, "charge": 0, "hcount": 0} for e in ("C", "O")]
EDGE5 = [{"order": 1}]


def _node(i, el="C", h=0, ch=0):
    return [i, {"element": el, "charge": ch, "hcount": h, "aromatic": False, "atom_map": i}]


def _mk(n, edges, el="C"):
    return {"nodes": [_node(i, el) for i in range(1, n + 1)], "edges": [[u, v, {"order": o}] for u, v, o in edges]}


def path(n, o=1):
    return _mk(n, [(i, i + 1, o) for i in range(1, n)])


def star(k):
    return _mk(k + 1, [(1, i, 1) for i in range(2, k + 2)])


def complete(n):
    return _mk(n, [(i, j, 1) for i in range(1, n + 1) for j in range(i + 1, n + 1)])


def ring_alt(n, a=1, b=2):
    return _mk(n, [(i, i % n + 1, a if i % 2 else b) for i in range(1, n + 1)])


def prism():
    return _mk(6, [(1, 2, 1), (2, 3, 1), (1, 3, 1), (4, 5, 1), (5, 6, 1), (4, 6, 1), (1, 4, 1), (2, 5, 1), (3, 6, 1)])


def disjoint(*gs):
    """disjoint union with fresh consecutive ids"""
    nodes, edges, off = [], [], 0
    for g in gs:
        ids = {n: off + k + 1 for k, (n, _) in enumerate(g["nodes"])}
        for n, a in g["nodes"]:
            a = dict(a)
            if "atom_map" in a:
                a["atom_map"] = ids[n]
            nodes.append([ids[n], a])
        edges += [[ids[u], ids[v], dict(a)] for u, v, a in g["edges"]]
        off += len(g["nodes"])
    return {"nodes": nodes, "edges": edges}


def mirror(g):
    """two copies of g joined node-wise: has the automorphism exchanging the copies"""
    n = len(g["nodes"])
    d = disjoint(g, g)
    ids = [x[0] for x in d["nodes"]]
    d["edges"].append([ids[0], ids[n], {"order": 1}])
    return d


def with_label(g, k, **kw):
    g = copy.deepcopy(g)
    g["nodes"][k % len(g["nodes"])][1].update(kw)
    return g


def families():
    out = []
    for n in range(3, 10):
        out.append(("cycle%d" % n, GG.cycle(n)))
    for n in (4, 6, 8):
        out.append(("ring_alt%d" % n, ring_alt(n)))
    out.append(("benzene15", GG.cycle(6, order=1.5)))
    for m, n in ((1, 2), (1, 3), (2, 2), (2, 3), (3, 3), (2, 4), (3, 4), (4, 4)):
        out.append(("K%d_%d" % (m, n), GG.complete_bipartite(m, n)))
    out.append(("cube", GG.cube()))
    out.append(("petersen", GG.petersen()))
    out.append(("prism", prism()))
    for k in range(2, 7):
        out.append(("star%d" % k, star(k)))
    for n in range(2, 8):
        out.append(("path%d" % n, path(n)))
    for n in range(3, 6):
        out.append(("K%d" % n, complete(n)))
    tri = GG.cycle(3)
    out.append(("2tri", disjoint(tri, tri)))
    out.append(("3edges", disjoint(path(2), path(2), path(2))))
    out.append(("tri+path3+tri", disjoint(tri, path(3), tri)))
    out.append(("4isolated", _mk(4, [])))
    out.append(("path2+path2O", disjoint(path(2), with_label(path(2), 0, element="O"))))
    out.append(("C4+C4", disjoint(GG.cycle(4), GG.cycle(4))))
    out.append(("C4+K1_3", disjoint(GG.cycle(4), star(3))))
    out.append(("mirror-path3", mirror(path(3))))
    out.append(("mirror-tri", mirror(tri)))
    return out


def _sym_break(name, g, rng):
    """variants: one node relabelled, one node with hcount (seen by WL only), one edge order changed"""
    out = [(name, g)]
    k = rng.randrange(len(g["nodes"]))
    out.append((name + "/O", with_label(g, k, element="O")))
    out.append((name + "/h", with_label(g, k, hcount=1)))
    if g["edges"]:
        h = copy.deepcopy(g)
        h["edges"][rng.randrange(len(h["edges"]))][2]["order"] = 2
        out.append((name + "/dbl", h))
    return out


def _presentations(name, g, rng, k=1):
    """the graph itself plus k relabelled + re-inserted presentations (ids up to 40: exercises repr-sorting and min-ties)"""
    out = [dict(kind="aut", name=name, g=g)]
    for j in range(k):
        h = GG.shuffle_insertion(GG.random_relabel(g, rng, lo=0, hi=40), rng)
        for n, a in h["nodes"]:
            if "atom_map" in a:
                a["atom_map"] = n
        out.append(dict(kind="aut", name="%s~%d" % (name, j), g=h))
    return out


def random_sym_graph(rng):
    n = rng.randint(2, 9)
    style = rng.random()
    kw = dict(elements=rng.choice([("C",), ("C", "C", "O"), ("C", "O", "N")]), orders=rng.choice([(1,), (1, 1, 2), (1, 2, 1.5)]),
              charges=rng.choice([(0,), (0, 0, 1)]), hcounts=rng.choice([(0,), (0, 1)]))
    if style < 0.35:
        g = GG.random_graph(rng, n, p_edge=rng.choice([0.0, 0.15, 0.3]), connected=True, **kw)      # tree-like, connected
    elif style < 0.6:
        g = GG.random_graph(rng, n, p_edge=rng.choice([0.1, 0.25, 0.5]), connected=False, **kw)    # often disconnected
    elif style < 0.8:
        m = rng.randint(1, 4)
        a = GG.random_graph(rng, m, p_edge=0.4, connected=True, **kw)
        g = disjoint(a, a) if rng.random() < 0.5 else disjoint(a, a, GG.random_graph(rng, rng.randint(1, 3), connected=True, **kw))
    else:
        m = rng.randint(1, 4)
        g = mirror(GG.random_graph(rng, m, p_edge=0.4, connected=True, **kw))
    return g


# ------------------------------------------------------------------ match lists

def _small_pattern(rng):
    z = rng.random()
    kw = dict(elements=rng.choice([("C",), ("C", "C", "O")]), orders=(1, 1, 2), charges=(0,), hcounts=(0,))
    if z < 0.5:
        return GG.random_graph(rng, rng.randint(1, 4), p_edge=0.3, connected=True, first_id=rng.choice([1, 1, 11]), **kw)
    if z < 0.75:
        a = GG.random_graph(rng, rng.randint(1, 2), p_edge=0.5, connected=True, **kw)
        return disjoint(a, a)
    a = GG.random_graph(rng, rng.randint(1, 2), p_edge=0.5, connected=True, **kw)
    b = GG.random_graph(rng, rng.randint(1, 2), p_edge=0.5, connected=True, **kw)
    return disjoint(a, b)


def dedup_case(rng, k):
    import networkx as nx
    from synkit.Graph.Matcher.subgraph_matcher import SubgraphSearchEngine as SSE
    for _ in range(30):
        P = _small_pattern(rng)
        H = GG.random_graph(rng, rng.randint(3, 7), p_edge=rng.choice([0.3, 0.5, 0.8]), elements=("C", "C", "C", "O"),
                            orders=(1, 1, 1, 2), charges=(0,), hcounts=(0, 1), first_id=rng.choice([1, 21]))
        strat = rng.choice(["all", "all", "comp", "bt"])
        try:
            with cpu_limit(10):
                ms = SSE.find_subgraph_mappings(GG.to_nx(H), GG.to_nx(P), node_attrs=["element", "charge"], edge_attrs=["order"], strategy=strat)
        except (Exception, CaseTimeout):
            continue
        if not ms:
            continue
        ms = [[[p, h] for p, h in m.items()] for m in ms][:40]
        z = rng.random()
        var = "engine"
        if z < 0.2:
            rng.shuffle(ms)
            var = "shuffled"
        elif z < 0.35:
            ms = ms + [list(m) for m in rng.sample(ms, min(3, len(ms)))]
            rng.shuffle(ms)
            var = "duplicated"
        elif z < 0.55:
            ms = [[ph for ph in m if rng.random() < 0.7] for m in ms]
            var = "partial"
        elif z < 0.65:
            ms = [list(reversed(m)) if rng.random() < 0.5 else m for m in ms]
            var = "dict-order"
        return dict(kind="dedup", name="dedup#%d/%s/%s" % (k, strat, var), p=P, h=H, ms=ms)
    raise RuntimeError("no matching pair found")


def _descending(g):
    """consecutive ids reversed: the first-inserted component carries the largest ids (node ids not inserted ascending,
    as for atom-mapped SMILES whose map numbers do not follow the atom order)"""
    n = len(g["nodes"])
    ids = [x[0] for x in g["nodes"]]
    return GG.relabel(g, {old: n - k for k, old in enumerate(ids)})


def _mol(atoms, bonds, first=1):
    return {"nodes": [[first + i, {"element": el, "charge": 0, "hcount": h, "aromatic": False, "atom_map": first + i}] for i, (el, h) in enumerate(atoms)],
            "edges": [[first + u, first + v, {"order": o}] for u, v, o in bonds]}


ETHANOL = (("C", 3), ("C", 2), ("O", 1)), ((0, 1, 1), (1, 2, 1))
DME = (("C", 3), ("O", 0), ("C", 3)), ((0, 1, 1), (1, 2, 1))
ACETALD = (("C", 3), ("C", 1), ("O", 0)), ((0, 1, 1), (1, 2, 2))
PATTERNS = [
    _mol((("C", 2), ("O", 0)), ((0, 1, 1),)),                  # C-O
    _mol((("C", 0), ("C", 0)), ((0, 1, 1),)),                  # C-C
    _mol((("C", 0),), ()),                                    # one atom
    _mol((("C", 0), ("O", 0)), ()),                           # two isolated atoms (disconnected pattern)
    _mol((("C", 0), ("O", 0), ("C", 0)), ((0, 1, 1), (1, 2, 1)), first=0),   # C-O-C with node id 0
]


def repeated_species_cases(tier, rng):
    """hosts with a repeated species of maximal size (the fast WL estimate identifies atoms ACROSS the copies, exact orbits
    never do), other species in between, component blocks in ascending / descending / shuffled id order; match lists from
    the engine in engine order, reversed and shuffled; plus the degenerate lists (empty, one match, matches with different
    key sets, one match repeated)."""
    from synkit.Graph.Matcher.subgraph_matcher import SubgraphSearchEngine as SSE
    out = []
    mixes = [(ETHANOL, DME, ETHANOL), (ETHANOL, ETHANOL), (DME, ETHANOL, DME, ETHANOL), (ACETALD, ETHANOL, ACETALD),
             (ETHANOL, DME, ETHANOL, ACETALD, ETHANOL)]
    k = 0
    for mi, mix in enumerate(mixes):
        base = disjoint(*[_mol(*m) for m in mix])
        hosts = [("asc", base), ("desc", _descending(base)), ("shuf", GG.shuffle_insertion(GG.random_relabel(base, rng, lo=0, hi=40), rng))]
        for hn, H in hosts:
            for pi, P in enumerate(PATTERNS):
                if tier == "quick" and (mi + pi) % 2 and hn == "shuf":
                    continue
                try:
                    with cpu_limit(10):
                        ms = SSE.find_subgraph_mappings(GG.to_nx(H), GG.to_nx(P), node_attrs=["element", "charge"], edge_attrs=["order"], strategy="all")
                except (Exception, CaseTimeout):
                    continue
                ms = [[[p, h] for p, h in m.items()] for m in ms][:60]
                if not ms:
                    continue
                variants = [("engine", ms), ("reversed", ms[::-1])]
                sh = list(ms)
                rng.shuffle(sh)
                variants.append(("shuffled", sh))
                if tier == "quick":
                    variants = variants[:2] if (mi + pi) % 2 else [variants[0], variants[2]]
                for vn, v in variants:
                    out.append(dict(kind="dedup", name="rep#%d/%s/p%d/%s" % (mi, hn, pi, vn), p=P, h=H, ms=v, shared=bool(k % 2)))
                    k += 1
    # the coordinator's wave-2 input, literally: C-O on ethanol . dimethyl ether . ethanol with descending ids
    H = _descending(disjoint(_mol(*ETHANOL), _mol(*DME), _mol(*ETHANOL)))
    P = PATTERNS[0]
    out.append(dict(kind="dedup", name="rep/w2-2", p=P, h=H, ms=[[[1, 8], [2, 9]], [[1, 4], [2, 5]], [[1, 6], [2, 5]], [[1, 2], [2, 3]]]))
    # degenerate match lists
    out.append(dict(kind="dedup", name="degenerate/empty-list", p=P, h=H, ms=[]))
    out.append(dict(kind="dedup", name="degenerate/one-match", p=P, h=H, ms=[[[1, 8], [2, 9]]]))
    out.append(dict(kind="dedup", name="degenerate/same-match-thrice", p=P, h=H, ms=[[[1, 8], [2, 9]]] * 3, shared=True))
    out.append(dict(kind="dedup", name="degenerate/different-key-sets", p=P, h=H,
                    ms=[[[1, 8]], [[2, 9]], [[1, 8], [2, 9]], [], [[2, 3]], [[1, 2]], [[1, 2], [2, 3]], []]))
    return out


# ------------------------------------------------------------------ rule applications

HAND = [
    # (template, forward substrates, backward substrates)
    ("[CH3:1][Br:2].[BH2:3][CH3:4]>>[CH3:1][CH3:4].[BH2:3][Br:2]", ["CC(C)CBr.CB(O)O"], ["CCC(C)C.OB(O)Br", "CCCC.OB(O)Br"]),
    ("[CH3:3][Br:1].[BH2:2][CH3:4]>>[CH3:3][CH3:4].[BH2:2][Br:1]", ["CCBr.CCB(O)O"], ["CCC(C)C.OB(O)Br"]),
    ("[CH2:1]=[CH2:2].[CH2:3]=[CH2:4]>>[CH2:1]=[CH2:3].[CH2:2]=[CH2:4]", ["CC=CC.C=CCC", "CC=C(C)C.OC=CN"], ["CC=CC.C=CCC"]),
    ("[CH2:1]=[CH:2][CH:3]=[CH2:4].[CH2:5]=[CH2:6]>>[CH2:1]1[CH:2]=[CH:3][CH2:4][CH2:6][CH2:5]1",
     ["CC=CC=C.C=CC=O", "C=CC(C)=C.C=CC=C"], ["CC1C=CCC(C=O)C1"]),
    ("[CH3:1][OH:2].[CH3:3][C:4](=[O:5])[OH:6]>>[CH3:1][O:2][C:4]([CH3:3])=[O:5].[OH2:6]", ["OCC(O)CO.OC(=O)CC(=O)O"], ["CC(=O)OCCOC(C)=O.O"]),
    ("[CH3:1][Cl:2].[BrH:3]>>[CH3:1][Br:3].[ClH:2]", ["ClCCCl.Br", "ClC(Cl)Cl.Br"], ["BrCCBr.Cl"]),
    ("[CH3:1][CH3:2].[OH2:3]>>[CH3:1][CH2:2][OH:3]", ["CC(C)C.O"], ["CC(C)CO"]),
    ("[CH2:1]=[CH2:2].[H:3][H:4]>>[CH2:1]([H:3])[CH2:2][H:4]", ["C=CC=C.[H][H]"], ["CCCC"]),
    ("[CH3:1][CH3:2].[CH3:3][CH3:4]>>[CH3:1][CH3:3].[CH3:2][CH3:4]", ["CCO.CCN"], ["CCO.CCN"]),
    ("[CH3:1][I:2].[CH3:3][I:4]>>[CH3:1][CH3:3].[I:2][I:4]", ["CCI.CC(C)I"], ["CCC(C)C.II"]),
    # node labels mirror-symmetric, edge labels not (1-2 becomes double, 2-3 stays single): a rule-symmetry test that
    # ignores edge attributes would merge the two orientations and lose a reaction (whole-ITS template, core=False)
    ("[CH2:1][CH:2][CH2:3]>>[CH2:1]=[CH:2][CH2:3]", ["CC(C)CO", "CCCO"], []),
]
# Left side and all before/after bond orders mirror-symmetric; the exchanged atoms differ on the PRODUCT side only, in a
# node-level label (charge-only / H-count-only, element preserved).  A rule-symmetry test that looks at the left labels
# only (e.g. drops the before/after atom types typesGH) merges the two orientations and loses half of the products on an
# unsymmetrical substrate.  Always run in default (explicit-H) and implicit-H mode, core and whole-ITS template.
ASYM = [
    ("[CH3:1][CH3:2]>>[CH3+:1].[CH3-:2]", ["CCC(C)C", "CCO"]),          # sigma heterolysis (default mode: hcount is reset)
    ("[CH2:1][CH2:2]>>[CH2+:1].[CH2-:2]", ["CCCO", "CCC(C)C"]),         # the same, matches in implicit mode too
    ("[CH:1]=[CH:2]>>[CH+:1][CH-:2]", ["CC=CO"]),                        # pi heterolysis
    ("[CH2:1]=[CH2:2]>>[CH2+:1][CH2-:2]", ["CC=C(C)C", "C=CO"]),
    ("[OH:1][OH:2]>>[OH+:1].[OH-:2]", ["COO", "CCOO"]),                  # heteroatoms
    ("[CH2:1][CH2:2]>>[CH:1].[CH3:2]", ["CCCO", "CCCN"]),               # H-count only (visible in implicit mode)
    ("[CH:1]=[CH:2]>>[C:1][CH2:2]", ["CC=CO"]),
    ("[NH:1][NH:2]>>[N:1].[NH2:2]", ["CNNCC"]),
]
# partial=True routes the search through PartialMatcher; its WL host-orbit pruning (prune_auto) merged matches that hit the
# same multiset of host WL classes - e.g. both orientations of an unsymmetrical rule, or a C-C bond of cyclopropane and one
# of cyclohexane (all CH2 carbons share one WL colour) - and lost reactions (fixed in /repo, see known_findings.d/C11.json)
PARTIAL = [
    ("[CH2:1][CH2:2].[BrH:3]>>[CH2:1][Br:3].[CH3:2]", ["CCCO.Br", "C1CC1.C1CCCCC1.Br"]),
    ("[CH2:1][CH2:2]>>[CH2:1].[CH2:2]", ["C1CC1.C1CCCCC1", "CCCO"]),
    ("[CH2:1][CH2:2].[H:3][H:4]>>[CH2:1][H:3].[CH2:2][H:4]", ["C1CC1.C1CCCCC1"]),
    ("[CH2:1][CH2:2]>>[CH2+:1].[CH2-:2]", ["CCCO"]),
    ("[CH3:1][Br:2].[BH2:3][CH3:4]>>[CH3:1][CH3:4].[BH2:3][Br:2]", ["CC(C)CBr.CB(O)O"]),
]
OPTS = [{}, {"strategy": "comp"}, {"strategy": "bt"}, {"automorphism": True}, {"explicit_h": False, "implicit_temp": True},
        # the embedding guards the reactor forwards to the search engine (no result above the threshold)
        {"embed_threshold": 1000}, {"embed_threshold": 1000, "embed_pre_filter": True}, {"embed_threshold": 3}]


def hand_cases(tier):
    out = []
    for ti, (tpl, fw, bw) in enumerate(HAND):
        for core in (True, False):
            for inv, subs in ((False, fw), (True, bw)):
                for si, sub in enumerate(subs):
                    for oi, o in enumerate(OPTS):
                        if tier == "quick" and (oi > 0 and (ti + si + oi + core) % 4):
                            continue
                        out.append(dict(kind="prune", name="hand%d/%s/%s/%d/%d" % (ti, "core" if core else "full", "bwd" if inv else "fwd", si, oi),
                                        tpl=tpl, core=core, sub=sub, invert=inv, opts=dict(o)))
    for ti, (tpl, subs) in enumerate(PARTIAL):
        for si, sub in enumerate(subs):
            for core in (True, False):
                out.append(dict(kind="prune", name="partial%d/%s/fwd/%d" % (ti, "core" if core else "full", si),
                                tpl=tpl, core=core, sub=sub, invert=False, opts={"partial": True}))
    # more than 100 raw matches (a limit or truncation between the search and the pruning shows against the reference taken
    # at the search engine): C-C homolysis (2 rule symmetries: 110 raw, 55 kept) and heterolysis (1: 110 kept) on a C56 chain
    for ti, tpl in enumerate(("[CH2:1][CH2:2]>>[CH2:1].[CH2:2]", "[CH2:1][CH2:2]>>[CH2+:1].[CH2-:2]")):
        out.append(dict(kind="prune", name="many%d/core/fwd" % ti, tpl=tpl, core=True, sub="C" * 56, invert=False, opts={}))
    for ti, (tpl, subs) in enumerate(ASYM):
        for core in (True, False):
            for si, sub in enumerate(subs):
                for oi in (0, 4):
                    out.append(dict(kind="prune", name="asym%d/%s/fwd/%d/%d" % (ti, "core" if core else "full", si, oi),
                                    tpl=tpl, core=core, sub=sub, invert=False, opts=dict(OPTS[oi])))
    return out


_CORPUS = {}


def corpus(which):
    if which in _CORPUS:
        return _CORPUS[which]
    out = []
    if which == "uspto":
        from synkit.IO.data_io import load_from_pickle
        out = [d["smart"] for d in load_from_pickle(os.path.join(REPO, "Data/Testcase/graph.pkl.gz"))]
    elif which == "ecoli":
        import json
        for d in json.load(open(os.path.join(REPO, "Data/ecoli.json.gz"))):
            s = d.get("smart")
            if s and ".." not in s and not s.startswith(".") and ">>." not in s and ".>>" not in s and not s.endswith("."):
                out.append(s)
    _CORPUS[which] = out
    return out


def _sides(r):
    from synkit.Chem.Reaction.standardize import Standardize
    try:
        a, b = Standardize().fit(r).split(">>")
        return a, b
    except Exception:
        return None


def corpus_cases(tier, rng):
    rx = corpus("uspto")
    out = []
    if tier == "quick":
        own = rng.sample(range(len(rx)), 14)
        cross = 6
        ecoli_n = 6
    else:
        own = list(range(len(rx)))
        cross = 120
        ecoli_n = 60
    for i in own:
        s = _sides(rx[i])
        if not s:
            continue
        for core in (True, False):
            # whole-molecule templates of big reactions have hundreds of raw matches (gluing every one of them in the oracle
            # takes 30-45 s) and are outside the model's evaluated domain anyway: thorough tier only
            if tier == "quick" and not core and rx[i].split(">>")[0].count(":") > 24:
                continue
            for inv in (False, True):
                out.append(dict(kind="prune", name="uspto%d/%s/%s" % (i, "core" if core else "full", "bwd" if inv else "fwd"),
                                tpl=rx[i], core=core, sub=s[1] if inv else s[0], invert=inv, opts={}))
    for k in range(cross):
        i, j = rng.randrange(len(rx)), rng.randrange(len(rx))
        s = _sides(rx[i])
        if not s:
            continue
        inv = rng.random() < 0.5
        out.append(dict(kind="prune", name="cross%d-%d/%s" % (i, j, "bwd" if inv else "fwd"), tpl=rx[j], core=True,
                        sub=s[1] if inv else s[0], invert=inv, opts=rng.choice([{}, {}, {"strategy": "comp"}, {"automorphism": True}])))
    ec = corpus("ecoli")
    for k in range(ecoli_n):
        i = rng.randrange(len(ec))
        s = _sides(ec[i])
        if not s:
            continue
        inv = rng.random() < 0.5
        out.append(dict(kind="prune", name="ecoli%d/%s" % (i, "bwd" if inv else "fwd"), tpl=ec[i], core=True,
                        sub=s[1] if inv else s[0], invert=inv, opts={"explicit_h": False, "implicit_temp": True}))
    return out


# ------------------------------------------------------------------ degenerate values and sizes

def degenerate_cases(tier, rng):
    """falsy / extreme node ids and label values, isolated nodes, two-digit and three-digit ids, sizes >= 10 and >= 100"""
    out = []

    def add(name, g):
        out.append(dict(kind="aut", name="degenerate/" + name, g=g, attr=True))
    # node id 0 (falsy) alone, with a neighbour, as the minimum of an orbit / of the anchor component
    z = _mk(3, [(1, 2, 1), (2, 3, 1)])
    add("id0-path", GG.relabel(z, {1: 0, 2: 5, 3: 9}))
    add("id0-centre", GG.relabel(z, {1: 7, 2: 0, 3: 9}))
    add("id0-isolated", GG.relabel(disjoint(_mk(1, []), path(2)), {1: 0, 2: 4, 3: 3}))
    add("id0-two-equal-components", GG.relabel(disjoint(path(2), path(2)), {1: 3, 2: 0, 3: 1, 4: 2}))   # anchor tie: min id 0
    # isolated nodes only, several equal largest components (anchor ties), all labels equal / all different
    add("3-isolated", _mk(3, []))
    add("isolated-different", {"nodes": [_node(1, "C"), _node(2, "O"), _node(3, "N")], "edges": []})
    add("tie-3-components", GG.relabel(disjoint(path(2), path(2), path(2)), {1: 20, 2: 21, 3: 10, 4: 11, 5: 30, 6: 31}))
    # falsy / negative / large attribute values
    g = path(3)
    g["nodes"][0][1].update(charge=0, hcount=0, aromatic=False)
    g["nodes"][2][1].update(charge=-1)
    add("negative-charge", g)
    g = path(4)
    g["nodes"][0][1].update(charge=12)
    g["nodes"][3][1].update(charge=12, hcount=10)
    add("two-digit-charge-hcount", g)
    g = GG.cycle(4)
    for k, (n, a) in enumerate(g["nodes"]):
        a["element"] = "" if k % 2 else "C"
    add("empty-string-element", g)
    g = GG.cycle(6, order=1.5)
    g["edges"][0][2]["order"] = 0.5
    add("half-orders", g)
    g = path(3)
    g["edges"][0][2]["order"] = 0
    add("order-zero", g)                                   # a falsy edge label
    # attributes absent on some nodes / edges only: the default label (charge 0, everything else "*", bond order 1.0), the same
    # for the exact analysis and for the estimate
    def bare(i, **kw):
        return [i, dict(kw)]
    add("absent-charge", {"nodes": [bare(1, element="C", charge=0), bare(2, element="C", charge=0), bare(3, element="C")],
                          "edges": [[1, 2, {"order": 1}], [2, 3, {"order": 1}]]})
    add("absent-hcount-aromatic", {"nodes": [bare(1, element="C", charge=0, hcount=1, aromatic=False), bare(2, element="C", charge=0),
                                             bare(3, element="C", charge=0, hcount=1), bare(4, element="C", charge=0, aromatic=False)],
                                   "edges": [[1, 2, {"order": 1}], [2, 3, {"order": 1}], [2, 4, {"order": 1}]]})
    add("absent-order", {"nodes": [bare(i, element="C", charge=0) for i in (1, 2, 3, 4)],
                         "edges": [[1, 2, {"order": 1}], [2, 3, {"order": 2}], [3, 4, {}]]})
    add("absent-element", {"nodes": [bare(1, charge=0), bare(2, element="C", charge=0), bare(3, charge=0), bare(4, element="*", charge=0)],
                           "edges": [[1, 2, {"order": 1}], [2, 3, {"order": 1}], [2, 4, {"order": 1}]]})
    # equal numbers of different type (1 == 1.0, 0 == 0.0): one label for Python, so the mirror stays a symmetry; a label built
    # from str(value) or type-sensitive hashing would separate the two ends
    add("mixed-int-float", {"nodes": [bare(1, element="C", charge=0, hcount=1), bare(2, element="C", charge=0, hcount=0),
                                      bare(3, element="C", charge=0.0, hcount=1.0)],
                            "edges": [[1, 2, {"order": 1}], [2, 3, {"order": 1.0}]]})
    add("negative-ids", GG.relabel(path(3), {1: -1, 2: 0, 3: 1}))          # outside the model's domain: oracle only
    add("no-attributes-at-all", {"nodes": [bare(i) for i in (0, 1, 2, 3)], "edges": [[0, 1, {}], [1, 2, {}], [2, 3, {}]]})
    # ids with two and three digits (string sorting of ids differs from numeric), sizes >= 10
    add("ids-9-10-100", GG.relabel(path(3), {1: 100, 2: 9, 3: 10}))
    add("cycle12-ids-x11", GG.relabel(GG.cycle(12), {i: 11 * i for i in range(1, 13)}))
    add("path16", path(16))
    add("ring_alt12", ring_alt(12))
    add("12-isolated", _mk(12, []))
    add("star6-ids-x17", GG.relabel(star(6), {i: 17 * i for i in range(1, 8)}))      # 720 automorphisms, two/three-digit ids
    add("10-components", disjoint(*[path(2) for _ in range(10)]))
    add("two-decalins", disjoint(mirror(GG.cycle(5)), mirror(GG.cycle(5))))          # 20 nodes, 2 equal components
    # >= 100 atoms: beyond the enumerator budget of the model, oracle only (4-6 s of brute force each: thorough tier);
    # the quick tier keeps a 40-atom chain and a 30-atom ring
    add("path40", path(40))
    add("cycle30-one-O", with_label(GG.cycle(30), 0, element="O"))
    # size thresholds of the "more than N atoms / more than N automorphisms" kind: a 7-leaf star (5 040 automorphisms, above the
    # model's budget: oracle only, 1 s) and two graphs with >= 100 atoms (oracle only, 4 s of brute force each)
    add("star7", star(7))
    add("path120", path(120))
    add("cycle100-one-O", with_label(GG.cycle(100), 0, element="O"))
    return out


# ------------------------------------------------------------------ attribute-key configurations

def _with_extra(g, rng=None):
    """every node gets a 'kind' attribute (a renaming of the element) and every edge a 'bond' attribute (constant), so that
    renamed keys exist; the default-named attributes keep their (varying) values"""
    import copy
    g = copy.deepcopy(g)
    for n, a in g["nodes"]:
        a["kind"] = {"C": "x", "O": "y", "N": "z"}.get(a.get("element"), "w")
    for e in g["edges"]:
        e[2]["bond"] = 1
    return g


def _cp_anion():
    """cyclopentadienyl anion, Kekule form: ring of 5 C, one carries charge -1 and hcount differs, bond orders 1 / 2"""
    g = _mk(5, [(1, 2, 1), (2, 3, 2), (3, 4, 1), (4, 5, 2), (5, 1, 1)])
    g["nodes"][0][1].update(charge=-1)
    for k in (1, 2, 3, 4):
        g["nodes"][k][1].update(hcount=1)
    return g


KEY_CONFIGS = [
    (None, None), (["element"], None), (["element"], ["bond"]), (["kind"], ["bond"]), (["charge"], ["order"]), (["element", "charge"], []),
    ([], None), ([], []), (["hcount"], ["order", "bond"]), (["charge", "element"], ["bond", "order"]), (["element", "charge", "hcount"], ["order"]),
    (None, ["bond"]), (["kind", "charge"], None),
]


def keys_cases(tier, rng):
    """non-default key configurations (reduced, empty, renamed, permuted, extended) on graphs where the OMITTED attributes
    differ between atoms / bonds that are exchangeable under the configured labels"""
    base = [("cp-anion", _cp_anion()), ("kekule-benzene", ring_alt(6)), ("pyridine-like", with_label(ring_alt(6), 0, element="N")),
            ("path4-O-end", with_label(path(4), 0, element="O")), ("star3-one-charge", with_label(star(3), 1, charge=1)),
            ("2tri-one-charged", with_label(disjoint(GG.cycle(3), GG.cycle(3)), 0, charge=1)),
            ("K2_3-dbl", _sym_break("K2_3", GG.complete_bipartite(2, 3), rng)[-1][1])]
    out = []
    # a CONFIGURED attribute absent on some atoms / bonds only, next to symmetry-equivalent atoms that carry the default value or
    # another value explicitly: both classes must use ONE rule for the absent value (charge 0, every other node key "*", bond keys
    # 1.0) - with two rules the estimate separates atoms the exact analysis exchanges, or the other way round
    def bare(i, **kw):
        return [i, dict(kw)]
    pa1 = {"nodes": [bare(1, element="C", charge=0, hcount=0, aromatic=False), bare(2, element="C", charge=0, hcount=0, aromatic=False),
                     bare(3, element="C", charge=0)],
           "edges": [[1, 2, {"order": 1, "bond": 1}], [2, 3, {"order": 1}]]}
    pa2 = {"nodes": [bare(1, element="C"), bare(2, element="C", charge=0, hcount=0), bare(3, element="C", hcount=0, aromatic=False),
                     bare(4, element="C", charge=0, hcount=1, aromatic=False), bare(5, element="C", charge=0, aromatic=True)],
           "edges": [[1, k, {"order": 1}] for k in (2, 3, 4)] + [[1, 5, {}]]}
    pa3 = {"nodes": [bare(1, kind="x"), bare(2), bare(3, kind="*"), bare(4, kind="x")], "edges": [[1, 2, {}], [2, 3, {"bond": 1.0}], [3, 4, {}], [4, 1, {"bond": 1}]]}
    PA_CONFIGS = [(["hcount"], None), (["aromatic"], None), (["element", "hcount"], ["order"]), (["charge"], None),
                  (["element", "charge", "aromatic", "hcount"], ["order"]), (["aromatic", "hcount"], ["bond"]), (["kind"], ["bond"]),
                  (["kind", "hcount"], ["order", "bond"])]
    for name, g in (("absent-some-path", pa1), ("absent-some-star", pa2), ("absent-some-ring", pa3)):
        for ci, (nk, ek) in enumerate(PA_CONFIGS):
            out.append(dict(kind="keys", name="keys/%s/%d" % (name, ci), g=g, nk=nk, ek=ek))
    for name, g in base:
        g = _with_extra(g)
        for ci, (nk, ek) in enumerate(KEY_CONFIGS):
            # quick: everything on the first two graphs, the empty-list configurations (5, 6, 7: "falsy means default" for the
            # exact analysis, "empty means no label" for the estimate) on every graph, every third of the rest
            if tier == "quick" and name not in ("cp-anion", "kekule-benzene") and ci not in (5, 6, 7) and (ci + len(name)) % 3:
                continue
            out.append(dict(kind="keys", name="keys/%s/%d" % (name, ci), g=g, nk=nk, ek=ek))
    return out


# ------------------------------------------------------------------ history cases

# product-asymmetric rule, its symmetric sibling (same left side, same bond changes, no node-level change), a renumbering
SIBLINGS = [
    ("[CH2:1][CH2:2]>>[CH2+:1].[CH2-:2]", "[CH2:1][CH2:2]>>[CH2:1].[CH2:2]", "[CH2:2][CH2:1]>>[CH2+:2].[CH2-:1]", "CCCO"),
    ("[CH:1]=[CH:2]>>[CH+:1][CH-:2]", "[CH:1]=[CH:2]>>[CH:1][CH:2]", "[CH:2]=[CH:1]>>[CH-:2][CH+:1]", "CC=CO"),
    ("[OH:1][OH:2]>>[OH+:1].[OH-:2]", "[OH:1][OH:2]>>[OH:1].[OH:2]", "[OH:2][OH:1]>>[OH-:2].[OH+:1]", "CCOO"),
    ("[SH:1][SH:2]>>[SH+:1].[SH-:2]", "[SH:1][SH:2]>>[SH:1].[SH:2]", "[SH:2][SH:1]>>[SH+:2].[SH-:1]", "CCSSC"),
]


def _pstep(tpl, sub, core=True, opts=None, invert=False):
    return dict(kind="prune", name="step", tpl=tpl, core=core, sub=sub, invert=invert, opts=dict(opts or {}))


def history_cases(tier, rng):
    out = []
    # (c) one process, rules that share everything but the product-side atom types; both orders; non-default options first
    for k, (asym, sym, ren, sub) in enumerate(SIBLINGS):
        for core in ((True, False) if tier != "quick" else (bool(k % 2),)):
            out.append(dict(kind="hist", script="prune", name="hist/prune/sym-then-asym#%d" % k,
                            steps=[_pstep(sym, sub, core), _pstep(asym, sub, core), _pstep(sym, sub, core)]))
            out.append(dict(kind="hist", script="prune", name="hist/prune/asym-then-sym#%d" % k,
                            steps=[_pstep(asym, sub, core), _pstep(sym, sub, core), _pstep(ren, sub, core), _pstep(asym, sub, core)]))
            out.append(dict(kind="hist", script="prune", name="hist/prune/options-first#%d" % k,
                            steps=[_pstep(sym, sub, core, {"explicit_h": False, "implicit_temp": True}),
                                   _pstep(asym, sub, core, {"automorphism": True}), _pstep(asym, sub, not core), _pstep(asym, sub, core)]))
    # (a) ONE SynRule object shared by several reactors (different substrates, options, repeated)
    for k, (tpl, subs) in enumerate([(SIBLINGS[0][0], ["CCCO", "CCCCN", "CCCO"]), (HAND[2][0], ["CC=CC.C=CCC", "CC=C(C)C.OC=CN", "CC=CC.C=CCC"]),
                                     (ASYM[4][0], ["COO", "CCOO", "COO"])]):
        out.append(dict(kind="hist", script="prune", name="hist/prune/shared-rule#%d" % k, share_rule=True,
                        steps=[_pstep(tpl, sub, True, {"strategy": "comp"} if j == 1 else {}) for j, sub in enumerate(subs)]))
    out.append(dict(kind="hist", script="prune", name="hist/prune/other-substrates",
                    steps=[_pstep(SIBLINGS[0][1], "CCCCO"), _pstep(SIBLINGS[0][0], "CCCN"), _pstep(SIBLINGS[0][0], "CCCO"),
                           _pstep(HAND[0][0], HAND[0][2][0], invert=True), _pstep(HAND[1][0], HAND[1][2][0], invert=True)]))
    # (a)(b)(d)(e) one graph object analysed, edited in place, analysed again; reduced / permuted / extended attribute lists first
    seeds = [("path4", path(4)), ("cycle6", GG.cycle(6)), ("star3", star(3)), ("2tri", disjoint(GG.cycle(3), GG.cycle(3))),
             ("K2_3", GG.complete_bipartite(2, 3)), ("edge+edge+node", disjoint(path(2), path(2), _mk(1, []))),
             ("single", _mk(1, [])), ("path12", path(12))]
    nks = [None, ["element"], ["charge", "element"], ["element", "charge", "hcount"]]
    for name, g in seeds:
        ids = [n for n, _ in g["nodes"]]
        a, b = ids[0], ids[-1]
        new = max(ids) + 10
        edits = [
            [],                                                                    # analysed as it is
            [["relabel", a, {"element": "O"}]],                                    # counts unchanged: one label
            [["relabel", a, {"element": "C"}], ["relabel", b, {"charge": 1}]],     # back, and a charge elsewhere
            [["relabel", b, {"charge": 0, "hcount": 2}]],                          # only WL(4 attrs) sees it
            [["add_node", new, {"element": "C", "charge": 0, "hcount": 0, "aromatic": False, "atom_map": new}],
             ["add_edge", a, new, {"order": 1}]],                                  # counts change
            [["order", a, new, 2]],                                                # one bond order
            [["del_node", new]],                                                   # back to the start value
        ]
        if g["edges"]:
            u, v = g["edges"][0][0], g["edges"][0][1]
            edits.insert(3, [["order", u, v, 2]])
            edits.append([["order", u, v, 1]])
        steps = [dict(edit=e, nk=nks[(i + len(name)) % len(nks)] if i % 3 == 2 else None) for i, e in enumerate(edits)]
        out.append(dict(kind="hist", script="aut", name="hist/aut/" + name, g=g, steps=steps))
        # the same value with non-default attribute selections first, then the defaults (no edit at all)
        out.append(dict(kind="hist", script="aut", name="hist/aut-options/" + name, g=g,
                        steps=[dict(nk=["element"]), dict(nk=None), dict(nk=["element", "charge", "hcount"]), dict(nk=["charge", "element"]), dict(nk=None)]))
    # edits that make the graph MORE symmetric than it was when the long-lived objects were created / first fitted
    # (a stale per-object memo of labels or bond orders then separates atoms that have become exchangeable)
    kek = _with_extra(with_label(ring_alt(6), 0, element="N"))               # Kekule pyridine
    ring = [[u, v] for u, v, _ in kek["edges"]]
    out.append(dict(kind="hist", script="aut", name="hist/aut/kekule-pyridine-to-aromatic", g=kek, steps=[
        dict(edit=[]), dict(edit=[["order", u, v, 1.5] for u, v in ring]),            # every ring bond 1.5: the mirror appears
        dict(edit=[["relabel", 1, {"element": "C"}]]),                                # N -> C: benzene, 12 automorphisms
        dict(edit=[["order", ring[0][0], ring[0][1], 2]], nk=["element"], ek=["bond"]),
        dict(edit=[["order", ring[0][0], ring[0][1], 1.5]], nk=["kind"], ek=["order"])]))
    asym = with_label(with_label(path(5), 0, element="O"), 4, charge=1)
    asym["edges"][0][2]["order"] = 2
    out.append(dict(kind="hist", script="aut", name="hist/aut/path5-symmetrised", g=_with_extra(asym), steps=[
        dict(edit=[]), dict(edit=[["order", 1, 2, 1]]), dict(edit=[["relabel", 1, {"element": "C"}]]),
        dict(edit=[["relabel", 5, {"charge": 0}]]), dict(edit=[["relabel", 3, {"hcount": 2}]], nk=["element", "charge"], ek=[])]))
    cp = _with_extra(_cp_anion())
    out.append(dict(kind="hist", script="aut", name="hist/aut/cp-anion-keys", g=cp, steps=[
        dict(edit=[], nk=["element"], ek=["bond"]), dict(edit=[]), dict(edit=[["relabel", 1, {"charge": 0, "hcount": 1}]]),
        dict(edit=[["order", u, v, 1.5] for u, v, _ in cp["edges"]]), dict(edit=[], nk=[], ek=[])]))
    if tier != "quick":
        for k in range(60):
            g = random_sym_graph(rng)
            ids = [n for n, _ in g["nodes"]]
            steps = [dict(edit=[], nk=None)]
            for j in range(4):
                n = rng.choice(ids)
                steps.append(dict(edit=[["relabel", n, {"element": rng.choice(["C", "O", "N"]), "charge": rng.choice([0, 0, 1])}]],
                                  nk=rng.choice(nks)))
            out.append(dict(kind="hist", script="aut", name="hist/aut/rand#%d" % k, g=g, steps=steps))
    return out


# ------------------------------------------------------------------ molecule graphs as the library builds them

MOLS = ["c1ccccc1", "CC(C)(C)c1ccccc1", "OC(=O)CCC(=O)O", "C1CCCCC1", "c1ccc2ccccc2c1", "CC(C)CC(C)C", "OB(O)c1ccc(Br)cc1",
        "[O-][N+](=O)c1ccccc1", "[H]C([H])([H])[H]", "[H]C([H])=C([H])[H]", "C1CC1.C1CC1", "CCO.CCO.O", "[NH4+].[Cl-]", "C[N+](C)(C)C",
        # one bonded molecule (or none) plus LONE atoms with equal labels: the analysis counts per component - the lone atoms are
        # not exchanged (component swaps excluded), the reported number is that of the molecule
        "[Ca+2].[Cl-].[Cl-]", "CCO.O.O", "[Na+].[Na+].[O-]C([O-])=O", "[Cl-].[Cl-].[Cl-]", "O.O", "[K+].[Br-]",
        "ClC(Cl)(Cl)Cl", "FC(F)(F)C(F)(F)F", "c1ccncc1", "C1=CC=CC=C1", "O=C=O", "N#N", "CC(=O)OC(C)=O", "C12C3C4C1C5C2C3C45"]


def mol_cases(tier, rng):
    """graphs produced by smiles_to_graph (all the attributes the library puts on atoms and bonds: aromatic flags, float bond
    orders, the list-valued neighbors, atom_map ...): symmetric and charged molecules, explicit hydrogens, several species,
    cubane; plus reactant molecules of the USPTO sample"""
    from synkit.IO.chem_converter import smiles_to_graph
    smis = list(MOLS)
    rx = corpus("uspto")
    pool = sorted({m for r in rx for m in r.split(">>")[0].split(".")})
    smis += rng.sample(pool, min(len(pool), 12 if tier == "quick" else 150))
    out = []
    for smi in smis:
        try:
            with cpu_limit(10):
                G = smiles_to_graph(smi, drop_non_aam=False, use_index_as_atom_map=True)
        except (Exception, CaseTimeout):
            continue
        if G is None or G.number_of_nodes() == 0 or G.number_of_nodes() > (25 if tier == "quick" else 45):      # model cost: 0.1-3 s each
            continue
        out.append(dict(kind="aut", name="mol/" + smi, g=GG.from_nx(G)))
    return out


# ------------------------------------------------------------------ orbit.py: OrbitAccuracy(approx, exact)

def _rand_partition(ids, rng):
    ids = list(ids)
    rng.shuffle(ids)
    out = []
    while ids:
        k = rng.randint(1, max(1, min(4, len(ids))))
        out.append(ids[:k])
        ids = ids[k:]
    return out


def orbacc_cases(tier, rng):
    """two lists of node sets: degenerate inputs (empty, unequal node sets = ValueError, empty / repeated / overlapping
    members, duplicates inside a member, id 0, two- and three-digit ids), random partitions (approx = a coarsening, a
    refinement, unrelated, the same in another order) and the estimate against the exact analysis of random graphs"""
    out = []

    def add(name, A, E):
        out.append(dict(kind="orbacc", name="orbacc/" + name, A=A, E=E, frozen=bool(len(out) % 2)))
    add("empty", [], [])
    add("one-node", [[3]], [[3]])
    add("different-node-sets", [[1, 2]], [[1], [3]])
    add("missing-in-approx", [[1]], [[1], [2]])
    add("missing-in-exact", [[1], [2]], [[2]])
    add("empty-member", [[1, 2], []], [[1], [2]])
    add("only-empty-members", [[]], [[], []])
    add("overlap-last-wins", [[1, 2], [2, 3]], [[1], [2, 3]])
    add("overlap-in-exact", [[1, 2, 3]], [[1, 2], [2, 3], [1]])
    add("overlap-exact-decides", [[1, 2], [3]], [[1, 2], [2, 3]])         # node 2: last member wins -> 1/3 exact, first -> 2/3
    add("overlap-approx-decides", [[1, 2], [2, 3]], [[1, 2], [3]])
    add("overlap-three", [[1, 2, 3], [3, 4], [4, 1]], [[1], [2, 3], [4], [4, 3]])
    add("duplicate-member", [[1, 2], [1, 2], [3]], [[1, 2], [3]])
    add("duplicates-inside", [[1, 1, 2], [3]], [[2, 1], [3, 3]])
    add("id0-two-digit", [[0, 10], [9, 100]], [[0], [10], [9, 100]])
    add("equal-other-order", [[5, 6], [1], [2, 3, 4]], [[2, 4, 3], [6, 5], [1]])
    add("two-nodes-merged", [[7, 8]], [[7], [8]])
    add("two-nodes-split", [[7], [8]], [[8, 7]])
    for k in range(60 if tier == "quick" else 800):
        ids = rng.sample(range(0, 30), rng.randint(1, 12))
        E = _rand_partition(ids, rng)
        mode = k % 4
        if mode == 0:                                   # approx coarser (what the WL estimate is)
            A, cur = [], []
            for o in E:
                cur = cur + o
                if rng.random() < 0.5:
                    A.append(cur)
                    cur = []
            if cur:
                A.append(cur)
        elif mode == 1:                                 # approx finer
            A = [p for o in E for p in _rand_partition(o, rng)]
        elif mode == 2:
            A = _rand_partition(ids, rng)
        else:
            A = [list(reversed(o)) for o in E]
            rng.shuffle(A)
        if k % 5 == 4 and len(ids) >= 2:                # not partitions: a node repeated in another member of either list
            A = [list(o) for o in A]
            E = [list(o) for o in E]
            rng.choice(A).append(rng.choice(ids))
            rng.choice(E).append(rng.choice(ids))
        add("rand#%d/%d" % (k, mode), A, E)
    from synkit.Graph.Matcher.automorphism import Automorphism
    from synkit.Graph.Matcher.auto_est import AutoEst
    for k in range(30 if tier == "quick" else 300):
        g = random_sym_graph(rng)
        G = GG.to_nx(g)
        mi = rng.choice([0, 1, 10])
        try:
            with cpu_limit(10):
                add("graph#%d" % k, [sorted(o) for o in AutoEst(G, max_iter=mi).fit().orbits], [sorted(o) for o in Automorphism(G).orbits])
        except CaseTimeout:
            continue
    return out


# ------------------------------------------------------------------ the remaining views of the two classes

def views_cases(tier, rng):
    """graphs (random, disconnected families, degenerate) with node subsets for AutoEst.components / orbit_components:
    None, all nodes, a random subset, one component, a subset given with repetitions, the empty list, an unknown node"""
    out = []
    graphs = [(n, g) for n, g in families() if n in ("2tri", "3edges", "tri+path3+tri", "4isolated", "C4+K1_3", "cycle6", "star4", "mirror-path3")]
    graphs.append(("single", _mk(1, [])))
    graphs.append(("empty", {"nodes": [], "edges": []}))
    graphs.append(("ids-9-10-100", GG.relabel(disjoint(path(2), _mk(1, [])), {1: 100, 2: 9, 3: 10})))
    for k in range(25 if tier == "quick" else 300):
        graphs.append(("rand#%d" % k, random_sym_graph(rng)))
    for name, g in graphs:
        ids = [n for n, _ in g["nodes"]]
        subsets = [None, list(ids), []]
        if ids:
            subsets.append(sorted(rng.sample(ids, rng.randint(1, len(ids)))))
            sub = rng.sample(ids, rng.randint(1, len(ids)))
            subsets.append(sub + sub[:1])                              # a repetition
            subsets.append([ids[0], max(ids) + 7])                     # an unknown node: ValueError
            comp = {ids[0]}
            grew = True
            while grew:
                grew = False
                for u, v, _ in g["edges"]:
                    if (u in comp) != (v in comp):
                        comp |= {u, v}
                        grew = True
            subsets.append(sorted(comp))
        out.append(dict(kind="views", name="views/" + name, g=g, subsets=subsets))
    return out


# ------------------------------------------------------------------ entry

def gen_cases(tier, rng):
    cases = []
    # exhaustive small scopes (both tiers)
    for n in (1, 2, 3):
        for k, g in enumerate(GG.iso_classes(n, GG.MOL_NODE_LABELS, GG.MOL_EDGE_LABELS)):
            cases.append(dict(kind="aut", name="iso%d#%d" % (n, k), g=g))
    full4 = list(GG.iso_classes(4, GG.MOL_NODE_LABELS, GG.MOL_EDGE_LABELS))
    if tier == "quick":
        # the exact analysis sees (element, charge) and the bond order only: over that alphabet 4 nodes are exhaustive (705
        # classes); hcount is visible to the WL estimate alone - a seeded sample of the 9291 hcount-labelled classes
        h0 = [a for a in GG.MOL_NODE_LABELS if a.get("hcount", 0) == 0]
        for k, g in enumerate(GG.iso_classes(4, h0, GG.MOL_EDGE_LABELS)):
            cases.append(dict(kind="aut", name="iso4h0#%d" % k, g=g))
        for k in rng.sample(range(len(full4)), 1500):
            cases.append(dict(kind="aut", name="iso4#%d" % k, g=full4[k]))
    else:
        for k, g in enumerate(full4):
            cases.append(dict(kind="aut", name="iso4#%d" % k, g=g))
    for k, g in enumerate(GG.iso_classes(5, NODE5, EDGE5)):
        cases.append(dict(kind="aut", name="iso5#%d" % k, g=g))
    cases.append(dict(kind="aut", name="empty", g={"nodes": [], "edges": []}))
    # symmetric families, symmetry-breaking variants, relabelled / re-inserted presentations
    for name, g in families():
        for nm, h in _sym_break(name, g, rng):
            cases += _presentations(nm, h, rng, k=1 if tier == "quick" else 3)
    # random
    nrand = 500 if tier == "quick" else 6000
    for k in range(nrand):
        g = random_sym_graph(rng)
        cases += _presentations("rand#%d" % k, g, rng, k=1 if rng.random() < 0.5 else 0)
    if tier == "thorough":
        for k in range(3000):   # 5-node sample over the full label alphabet
            g = GG.random_graph(rng, 5, p_edge=rng.choice([0.3, 0.5, 0.7]), elements=("C", "O"), orders=(1, 2), charges=(0,), hcounts=(0, 1))
            cases.append(dict(kind="aut", name="five#%d" % k, g=g))
    # match lists
    for k in range(260 if tier == "quick" else 3000):
        cases.append(dedup_case(rng, k))
    cases += degenerate_cases(tier, rng)
    cases += keys_cases(tier, rng)
    cases += repeated_species_cases(tier, rng)
    cases += history_cases(tier, rng)
    cases += orbacc_cases(tier, rng)
    cases += views_cases(tier, rng)
    cases += mol_cases(tier, rng)
    # rule applications
    cases += hand_cases(tier)
    cases += corpus_cases(tier, rng)
    return riffle(cases)


SHARD_HINT = 100     # = SHARD of harness/props/C11.py


def riffle(cases):
    """The model is evaluated in shards of consecutive cases (one coqc each, 16 at a time); the expensive cases come in
    runs (symmetric families: Petersen, K4,4, stars; long chains; whole-molecule templates), so that one shard took 19 s of
    the 98 CPU-s of all 50 and set the wall time of the stage.  Deal the cases out round-robin: shard j gets every n-th."""
    n = len(cases) // SHARD_HINT + 1
    return [c for j in range(n) for c in cases[j::n]]
