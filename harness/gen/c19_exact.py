"""C19: a faster (untrusted) rank-certificate finder for larger matrices (own file of C19).

Same certificate format as gen/c17_exact.rank_cert (S = A*B, A2*S*B2 = d*I_r, checked in Coq by RankBridge.check_rank); the only
difference is how the r independent rows of S[:, J] are chosen: one incremental elimination (O(m r^2)) instead of an exact rank
computation per candidate row (O(m r^3))."""
from fractions import Fraction
from . import c17_exact as X


def _independent_rows(M, r):
    """Indices of r linearly independent rows of M (m x r), chosen greedily in order (the same choice as the exact-rank greedy)."""
    basis = []          # (pivot column, reduced row with pivot 1)
    chosen = []
    for i, row in enumerate(M):
        if len(chosen) == r:
            break
        v = [Fraction(x) for x in row]
        for pc, b in basis:
            if v[pc] != 0:
                f = v[pc]
                v = [a - f * c for a, c in zip(v, b)]
        pc = next((j for j, x in enumerate(v) if x != 0), None)
        if pc is None:
            continue
        pv = v[pc]
        basis.append((pc, [x / pv for x in v]))
        chosen.append(i)
    return chosen


def rank_cert(S, m, n):
    if max(m, n) < 16:
        return X.rank_cert(S, m, n)
    H = [list(row) for row in S]
    U = [[1 if i == j else 0 for j in range(m)] for i in range(m)]       # invariant: S = U * H
    row = 0
    pivcols = []
    for col in range(n):
        if row >= m:
            break
        while True:
            nz = [i for i in range(row, m) if H[i][col] != 0]
            if len(nz) <= 1:
                break
            p = min(nz, key=lambda i: (abs(H[i][col]), i))
            for i in nz:
                if i == p:
                    continue
                q = H[i][col] // H[p][col]
                if q:
                    H[i] = [a - q * b for a, b in zip(H[i], H[p])]
                    for k in range(m):
                        U[k][p] += q * U[k][i]
        nz = [i for i in range(row, m) if H[i][col] != 0]
        if nz:
            p = nz[0]
            if p != row:
                H[row], H[p] = H[p], H[row]
                for k in range(m):
                    U[k][row], U[k][p] = U[k][p], U[k][row]
            pivcols.append(col)
            row += 1
    r = row
    A = [[U[i][k] for k in range(r)] for i in range(m)]
    B = [H[k][:] for k in range(r)]
    J = pivcols
    I = _independent_rows([[S[i][j] for j in J] for i in range(m)], r)
    assert len(I) == r
    d, adj = X._det_adj([[Fraction(S[i][j]) for j in J] for i in I])
    A2 = [[0] * m for _ in range(r)]
    for a in range(r):
        for b in range(r):
            A2[a][I[b]] = adj[a][b]
    B2 = [[0] * r for _ in range(n)]
    for b in range(r):
        B2[J[b]][b] = 1
    c = dict(r=r, A=A, B=B, A2=A2, B2=B2, d=d)
    assert X.check_rank_py(S, m, n, c)
    return c
