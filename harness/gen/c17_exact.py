"""Exact linear algebra for C17 / C19 (untrusted certificate FINDERS + plain-Python exact checks).

Nothing here is trusted by a theorem: every certificate produced is re-validated (a) in Python with exact
integer arithmetic by the property oracle and (b) inside Coq by the proved checkers
(lib/RankBridge.check_rank, lib/C17_Farkas.check_pos / check_neg) under vm_compute.

Matrices are lists of rows of Python ints.
"""
from fractions import Fraction
from math import gcd


# ------------------------------------------------------------------ basics

def dims(M, ncols=None):
    m = len(M)
    n = len(M[0]) if M else (ncols or 0)
    return m, n


def transpose(M, ncols=None):
    m, n = dims(M, ncols)
    return [[M[i][j] for i in range(m)] for j in range(n)]


def matmul(A, B, inner, ncolsB):
    return [[sum(A[i][l] * B[l][j] for l in range(inner)) for j in range(ncolsB)] for i in range(len(A))]


def matvec(M, x):
    return [sum(a * b for a, b in zip(row, x)) for row in M]


def vecmat(y, M, ncols):
    return [sum(y[i] * M[i][j] for i in range(len(M))) for j in range(ncols)]


def rank_frac(M):
    """Exact rank by Fraction Gauss-Jordan elimination (independent of the certificate finder below)."""
    M = [[Fraction(x) for x in row] for row in M]
    rows = len(M)
    cols = len(M[0]) if M else 0
    r = 0
    for c in range(cols):
        p = next((i for i in range(r, rows) if M[i][c] != 0), None)
        if p is None:
            continue
        M[r], M[p] = M[p], M[r]
        for i in range(rows):
            if i != r and M[i][c] != 0:
                f = M[i][c] / M[r][c]
                M[i] = [a - f * b for a, b in zip(M[i], M[r])]
        r += 1
    return r


def _lcm(a, b):
    return a * b // gcd(a, b)


def _to_int_vec(v):
    """Scale a Fraction vector by a positive integer so that it becomes integral and primitive."""
    L = 1
    for x in v:
        L = _lcm(L, Fraction(x).denominator)
    iv = [int(Fraction(x) * L) for x in v]
    g = 0
    for x in iv:
        g = gcd(g, abs(x))
    if g > 1:
        iv = [x // g for x in iv]
    return iv


# ------------------------------------------------------------------ rank certificate

def rank_cert(S, m, n):
    """Return dict(r, A, B, A2, B2, d) with  S = A*B  (A: m x r, B: r x n),  A2*S*B2 = d*I_r  (A2: r x m,
    B2: n x r), d != 0, all integer.  A,B from an integer row-echelon (Hermite-style) factorisation S = U*H,
    A2 from the adjugate of an invertible r x r minor."""
    H = [list(row) for row in S]
    U = [[1 if i == j else 0 for j in range(m)] for i in range(m)]       # invariant: S = U * H
    row = 0
    pivcols = []
    for col in range(n):
        if row >= m:
            break
        while True:
            nz = [i for i in range(row, m) if H[i][col] != 0]
            if len(nz) <= 1:
                break
            p = min(nz, key=lambda i: (abs(H[i][col]), i))
            for i in nz:
                if i == p:
                    continue
                q = H[i][col] // H[p][col]
                if q:
                    H[i] = [a - q * b for a, b in zip(H[i], H[p])]       # R_i -= q R_p
                    for k in range(m):                                   # U := U * (I + q e_i e_p^T)
                        U[k][p] += q * U[k][i]
        nz = [i for i in range(row, m) if H[i][col] != 0]
        if nz:
            p = nz[0]
            if p != row:
                H[row], H[p] = H[p], H[row]
                for k in range(m):
                    U[k][row], U[k][p] = U[k][p], U[k][row]
            pivcols.append(col)
            row += 1
    r = row
    A = [[U[i][k] for k in range(r)] for i in range(m)]
    B = [H[k][:] for k in range(r)]
    assert matmul(A, B, r, n) == [list(x) for x in S] or m == 0
    # invertible minor: pivot columns J; choose rows I of S[:,J] with full rank (greedy by exact rank)
    J = pivcols
    I = []
    for i in range(m):
        if len(I) == r:
            break
        cand = I + [i]
        if rank_frac([[S[a][j] for j in J] for a in cand]) == len(cand):
            I = cand
    assert len(I) == r
    Mn = [[Fraction(S[i][j]) for j in J] for i in I]
    d, adj = _det_adj(Mn)
    A2 = [[0] * m for _ in range(r)]
    for a in range(r):
        for b in range(r):
            A2[a][I[b]] = adj[a][b]
    B2 = [[0] * r for _ in range(n)]
    for b in range(r):
        B2[J[b]][b] = 1
    return dict(r=r, A=A, B=B, A2=A2, B2=B2, d=d)


def _det_adj(Mn):
    """det and adjugate (integers) of a square nonsingular Fraction matrix (size 0 allowed)."""
    r = len(Mn)
    if r == 0:
        return 1, []
    # inverse by Gauss-Jordan, det along the way
    A = [row[:] + [Fraction(1 if i == j else 0) for j in range(r)] for i, row in enumerate(Mn)]
    det = Fraction(1)
    for c in range(r):
        p = next(i for i in range(c, r) if A[i][c] != 0)
        if p != c:
            A[c], A[p] = A[p], A[c]
            det = -det
        det *= A[c][c]
        pv = A[c][c]
        A[c] = [x / pv for x in A[c]]
        for i in range(r):
            if i != c and A[i][c] != 0:
                f = A[i][c]
                A[i] = [a - f * b for a, b in zip(A[i], A[c])]
    inv = [row[r:] for row in A]
    adj = [[inv[i][j] * det for j in range(r)] for i in range(r)]
    assert det.denominator == 1 and all(x.denominator == 1 for row in adj for x in row)
    return int(det), [[int(x) for x in row] for row in adj]


def check_rank_py(S, m, n, c):
    """Python image of RankBridge.check_rank (exact)."""
    r = c["r"]
    if matmul(c["A"], c["B"], r, n) != [list(x) for x in S]:
        return False
    if c["d"] == 0:
        return False
    P = matmul(matmul(c["A2"], S, m, n), c["B2"], n, r)
    return P == [[c["d"] if i == j else 0 for j in range(r)] for i in range(r)]


# ------------------------------------------------------------------ exact simplex (phase 1, Bland's rule)

def feasible_or_farkas(A, b, n):
    """A: list of rows (ints), b: list; n = number of columns.
    Returns ("feas", z) with z >= 0 (Fractions), A z = b   or   ("farkas", w) with A^T w >= 0, b^T w < 0."""
    m = len(A)
    if m == 0:
        return "feas", [Fraction(0)] * n
    D = [1 if b[i] >= 0 else -1 for i in range(m)]
    T = []
    for i in range(m):
        T.append([Fraction(D[i] * A[i][j]) for j in range(n)] +
                 [Fraction(1 if k == i else 0) for k in range(m)] + [Fraction(D[i] * b[i])])
    basis = [n + i for i in range(m)]
    # reduced-cost row for  min sum(artificials)
    z = [-sum(T[i][j] for i in range(m)) for j in range(n)] + [Fraction(0)] * m + [-sum(T[i][-1] for i in range(m))]
    while True:
        j = next((k for k in range(n + m) if z[k] < 0), None)
        if j is None:
            break
        best = None
        for i in range(m):
            if T[i][j] > 0:
                ratio = T[i][-1] / T[i][j]
                key = (ratio, basis[i])
                if best is None or key < best[0]:
                    best = (key, i)
        assert best is not None, "phase-1 LP cannot be unbounded"
        i = best[1]
        pv = T[i][j]
        T[i] = [x / pv for x in T[i]]
        for k in range(m):
            if k != i and T[k][j] != 0:
                f = T[k][j]
                T[k] = [a - f * c for a, c in zip(T[k], T[i])]
        if z[j] != 0:
            f = z[j]
            z = [a - f * c for a, c in zip(z, T[i])]
        basis[i] = j
    value = -z[-1]
    if value == 0:
        sol = [Fraction(0)] * n
        for i in range(m):
            if basis[i] < n:
                sol[basis[i]] = T[i][-1]
        return "feas", sol
    pi = [1 - z[n + i] for i in range(m)]
    w = [-D[i] * pi[i] for i in range(m)]
    return "farkas", w


def positive_kernel_cert(A, nrows, ncols):
    """Decide  exists x > 0 : A x = 0   (A: nrows x ncols integer matrix, ncols >= 0).
    Returns ("pos", x)  with x a list of positive ints, A x = 0, or
            ("neg", w)  with w a list of ints (length nrows),  w^T A >= 0 componentwise and != 0  (Stiemke)."""
    if ncols == 0:
        return "pos", []
    b = [-sum(A[i]) for i in range(nrows)]            # x = 1 + z, z >= 0 :  A z = -A 1
    kind, v = feasible_or_farkas(A, b, ncols)
    if kind == "feas":
        x = _to_int_vec([1 + t for t in v])
        assert all(t > 0 for t in x) and all(t == 0 for t in matvec(A, x))
        return "pos", x
    w = _to_int_vec(v)
    return "neg", w


def check_pos_py(A, x):
    return all(t > 0 for t in x) and all(t == 0 for t in matvec(A, x)) and (not A or len(x) == len(A[0]))


def check_neg_py(A, w, ncols):
    t = vecmat(w, A, ncols)
    return len(w) == len(A) and all(v >= 0 for v in t) and any(v != 0 for v in t)
