"""C02 round 4: ITS graphs whose top-level labels may be (reactant, product) PAIRS (ITSConstruction.construct with its own
default store=True), model/C02_Store.v [snode] / [sits].

JSON S-graph: like the x-ITS graph of c02_enc.py, but a label value may be {"pair": [a, b]} (a Python 2-tuple at run time).
Raw label shapes outside the model (oracle only): {"tuple": [...]} (any length), {"np_int": 5}, null, plain lists.
"""
from ..tok import S
from . import c01_enc as E
from . import c02_enc as X

SKEYS = ("element", "charge", "atom_map", "aromatic", "hcount", "neighbors", "typesGH")


# ------------------------------------------------------------------ JSON <-> networkx

def dec(v):
    if isinstance(v, dict):
        if set(v) == {"pair"}:
            return (dec(v["pair"][0]), dec(v["pair"][1]))
        if set(v) == {"tuple"}:
            return tuple(dec(x) for x in v["tuple"])
        if set(v) == {"np_int"}:
            import numpy as np
            return np.int64(v["np_int"])
    return v


def to_nx_S(g):
    import networkx as nx
    G = nx.Graph()
    for n, a in g["nodes"]:
        d = {}
        for k, v in a.items():
            if k == "typesGH":
                d[k] = tuple(tuple(t) for t in v)
            else:
                d[k] = dec(v)
        G.add_node(n, **d)
    for u, v, a in g["edges"]:
        a = dict(a)
        if isinstance(a.get("order"), list):
            a["order"] = tuple(a["order"])
        G.add_edge(u, v, **a)
    return G


def canon_S(g):
    """the S-graph with its edge list in networkx iteration order (see c02_enc.canon): needed where adjacency order matters (n_knn = -1)"""
    G = to_nx_S(g)
    return {"nodes": [[n, a] for n, a in g["nodes"]], "edges": [[u, v, {k: E._js(x) for k, x in d.items()}] for u, v, d in G.edges(data=True)]}


def is_pair(v):
    return isinstance(v, tuple) and len(v) == 2


# ------------------------------------------------------------------ Gallina literals

def _lab(v, f):
    if isinstance(v, dict) and set(v) == {"pair"}:
        return "(Pr %s %s)" % (f(v["pair"][0]), f(v["pair"][1]))
    if isinstance(v, dict):
        raise TypeError("label shape outside the model: %r" % (v,))
    return "(Sc %s)" % f(v)


def _optlab(a, k, f):
    return "None" if k not in a else "(Some %s)" % _lab(a[k], f)


def coq_snode(a):
    odd = set(a) - set(SKEYS)
    if odd:
        raise TypeError("node attributes outside the model: %r" % sorted(odd))
    if "atom_map" in a and isinstance(a["atom_map"], dict):
        raise TypeError("atom_map is not a scalar")
    gh = a.get("typesGH")
    return "(SN %s %s %s %s %s %s %s)" % (
        _optlab(a, "element", lambda s: "%d%%N" % E.elem_code(s)), _optlab(a, "charge", E.cZ),
        "None" if "atom_map" not in a else "(Some %s)" % E.cZ(a["atom_map"]),
        _optlab(a, "aromatic", E.cb), _optlab(a, "hcount", E.cZ), _optlab(a, "neighbors", E.cnb),
        "None" if gh is None else "(Some (%s, %s))" % (E.coq_nattr(gh[0]), E.coq_nattr(gh[1])))


def coq_sits(g):
    ns = "; ".join("(%s, %s)" % (E.cN(n), coq_snode(a)) for n, a in g["nodes"])
    es = "; ".join("(%s, %s, %s)" % (E.cN(u), E.cN(v), X.coq_xedge(a)) for u, v, a in g["edges"])
    return "(LG [%s] [%s])" % (ns, es)


def coq_built(opts, lg, lh):
    """Gallina term of the ITS that ITSConstruction builds from (G, H) under opts, embedded into [sits]"""
    co = E.coq_opts(opts)
    if opts.get("store"):
        return "(emb_S (its_construct_S %s %s %s))" % (co, lg, lh)
    return "(gmap (fun a : inode => sn_of_x (xn_of a)) (fun e : iedge => (e, @None bool)) (C01_Opts.its_construct_o %s %s %s))" % (co, lg, lh)


# ------------------------------------------------------------------ observable (mirror of tsits)

def _ol(d, k, f):
    if k not in d:
        return []
    v = d[k]
    if is_pair(v):
        return [[f(v[0]), f(v[1])]]
    return [[f(v)]]


def obs_sits(G):
    ns = []
    for n, d in G.nodes(data=True):
        odd = sorted(set(d) - set(SKEYS))
        row = [n, _ol(d, "element", E.elem_code), _ol(d, "charge", E._int), X._o(d, "atom_map", E._int), _ol(d, "aromatic", E._bool),
               _ol(d, "hcount", E._int), _ol(d, "neighbors", lambda l: [E.elem_code(x) for x in l]),
               X._o(d, "typesGH", lambda t: [E.obs_nattr(t[0]), E.obs_nattr(t[1])])]
        if odd:
            row.append(odd)
        ns.append(row)
    es = []
    for u, v, d in G.edges(data=True):
        odd = sorted(set(d) - {"order", "standard_order", "is_mtg"}) + sorted("missing:" + k for k in ("order", "standard_order") if k not in d)
        oa, ob = d.get("order", (-99, -99))
        row = [min(u, v), max(u, v), E.half(oa), E.half(ob), E.half(d.get("standard_order", -99)), X._o(d, "is_mtg", E._bool)]
        if odd:
            row.append(odd)
        es.append(row)
    return [S(ns), S(es)]


# ------------------------------------------------------------------ "with their ITS labels": equal AND of the same shape / type

def same_label(a, b):
    if type(a) is not type(b):
        return False
    if isinstance(a, (tuple, list)):
        return len(a) == len(b) and all(same_label(x, y) for x, y in zip(a, b))
    return a == b


# ------------------------------------------------------------------ generators

DEFAULT_CONSTRUCT = {"api": "construct-defaults", "ia": False, "bal": True, "store": True}


def rand_opts(rng):
    return {"api": rng.choice(("construct", "construct", "ITSGraph")), "ia": rng.random() < 0.3, "bal": rng.random() < 0.5,
            "store": rng.random() < 0.75}


def pairify(g, rng, p=1.0):
    """an x-ITS JSON graph (c02_enc) whose scalar labels are turned into pairs with probability p per node"""
    out = {"nodes": [], "edges": g["edges"]}
    for n, a in g["nodes"]:
        a = dict(a)
        if rng.random() < p:
            gh = a.get("typesGH")
            for k in ("element", "charge", "aromatic", "hcount", "neighbors"):
                if k in a:
                    other = a[k]
                    if gh is not None:
                        other = {"element": gh[1][0], "aromatic": gh[1][1], "hcount": gh[1][2], "charge": gh[1][3], "neighbors": gh[1][4]}[k]
                    a[k] = {"pair": [a[k], other]}
        out["nodes"].append([n, a])
    return out
