"""C15 round 5 — the three __repr__ methods (model: coq/model/C15_Repr.v, `run_repr`).

case = {"kind": "h4-repr", "n": <#networks>, "k": <#caller side objects>, "ops": [op, ...]}     ops: the language of c15_ext.py
The history is executed, then repr() of every network, of every stored reaction (in insertion order) and of every
caller-held RXNSide is recorded.  Molecule labels in these cases are strings without escapes or integers (the model carries
a label as its JSON text and derives str(label) from it only for those).
"""
import json

from ..coqrun import cnat, clist
from . import c15_ext as X

GOOD_LABELS = ["m1", "CCO", "", 0, 12, "a b", "O=C=O", -3, "x -> y", "10"]


def _fix_label(v):
    if isinstance(v, bool) or not isinstance(v, (str, int)):
        return GOOD_LABELS[len(json.dumps(v, sort_keys=True)) % len(GOOD_LABELS)]
    return v


def fix_ops(ops):
    out = []
    for op in ops:
        op = json.loads(json.dumps(op))
        if op[0] == "mol":
            op[3] = _fix_label(op[3])
        elif op[0] == "molmap":
            op[2] = [[a, _fix_label(b)] for a, b in op[2]]
        out.append(op)
    return out


def impl4(case):
    from synkit.CRN.Hypergraph.hypergraph import CRNHyperGraph
    from synkit.CRN.Hypergraph.rxn import RXNSide
    nets = [CRNHyperGraph() for _ in range(case["n"])]
    pool = [RXNSide() for _ in range(case.get("k", 0))]
    for op in case["ops"]:
        X.apply2(nets, pool, op)
    return [[[repr(H), [repr(e) for e in H]] for H in nets], [repr(p) for p in pool]]


def coq_case4(case):
    if not X.in_model_domain(case):
        return None
    for op in case["ops"]:
        labs = [op[3]] if op[0] == "mol" else ([b for _, b in op[2]] if op[0] == "molmap" else [])
        for v in labs:
            if isinstance(v, bool) or not isinstance(v, (str, int)) or (isinstance(v, str) and ('"' in v or "\\" in v or not X._ascii(v))):
                return None
    return "run_repr %s %s %s" % (cnat(case["n"]), cnat(case.get("k", 0)), clist([X.op_term(o) for o in case["ops"]]))


def oracle4(case):
    """repr is not part of the property text: the history itself is judged by the store oracle; of repr only what any rendering owes
    the reader — it is a pure function of the network (two reads agree, reading changes nothing)"""
    fails = list(X.oracle2(dict(case, views=False, lite=False, skip=0)))
    if fails:
        return fails
    a = impl4(case)
    b = impl4(case)
    if a != b:
        fails.append(dict(clause="repr-deterministic", detail="two runs of the same history print differently"))
    return fails


PRE4 = [
    ["add", 0, X.P(("B", 2), ("A", 1)), X.P(("C", 1)), "r", None],                # r_1
    ["add", 0, X.P(("C", 12)), [], "r", "r_10"],
    ["add", 0, X.P(("A", 1)), X.P(("A", 1), ("D", 3)), "r", "r_2"],               # r_2 after r_10 in insertion order, before it in repr
    ["add", 0, X.P(("D", 1)), X.P(("E", 1)), "q", "r1_"],                         # key ("r_", 1) ties with r_1: stable order
    ["add", 0, X.P(("E", 1)), X.P(("A", 2)), "q", "x"],                            # no digits: n = 0
    ["add", 0, X.P(("E", 2)), X.P(("B", 1)), "", "1r_1"],                          # digits on both ends: ("r_", 11)
    ["add", 0, [], X.P(("F", 1)), "q", ""],                                        # empty id
    ["molmap", 0, X.P(("A", "CCO"), ("C", 0), ("B", "")), True, False],
    ["add", 1, X.P(("A", 1)), X.P(("B", 1)), "", None],
]


def gen_cases4(tier, rng):
    cases = [dict(kind="h4-repr", n=2, k=2, ops=list(PRE4)),
             dict(kind="h4-repr", n=2, k=2, ops=[]),
             dict(kind="h4-repr", n=2, k=2, ops=PRE4 + [["rmsp", 0, "A", False], ["rmrxn", 0, "r_10"], ["merge", 1, 0, True], ["merge", 1, 0, False],
                                                     ["poolnew", 0, [["p", "Zn", 12], ["l", "A"], ["p", "B", 1]]], ["molmap", 0, [], True, True]])]
    for m in X.mutators():
        cases.append(dict(kind="h4-repr", n=2, k=2, ops=fix_ops(PRE4 + [m])))
    for _ in range(120 if tier == "quick" else 900):
        cases.append(dict(kind="h4-repr", n=3, k=2, ops=fix_ops(X._rand_hist2(rng, 24, 3))))
    return cases
