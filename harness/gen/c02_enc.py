"""C02 round-2 encoders: ITS graphs whose node attributes may be absent and whose edges may carry is_mtg
(model/C02_Model.v [xits], [keysel]), option lists, lists of ITS graphs, canonical (networkx iteration order) JSON,
generators for the option populations and reaction-string rewriters with multi-digit atom maps / ring closures.

JSON x-ITS graph: {"nodes": [[id, {subset of element, charge, atom_map, aromatic, hcount, neighbors, typesGH}], ...],
                   "edges": [[u, v, {"order": [a, b], "standard_order": s, "is_mtg"?: bool}], ...]}
"""
import itertools
import re

from ..tok import S
from . import c01_enc as E

XKEYS = ("element", "charge", "atom_map", "aromatic", "hcount", "neighbors", "typesGH")
DEFAULT_KEYS = ["element", "charge", "typesGH", "atom_map"]


# ------------------------------------------------------------------ Gallina literals

def _opt(x, f):
    return "None" if x is None else "(Some %s)" % f(x)


def coq_xnode(a):
    odd = set(a) - set(XKEYS)
    if odd:
        raise TypeError("ITS node attributes outside the model: %r" % sorted(odd))
    gh = a.get("typesGH")
    return "(XN %s %s %s %s %s %s %s)" % (
        _opt(a.get("element"), lambda s: "%d%%N" % E.elem_code(s)), _opt(a.get("charge"), E.cZ), _opt(a.get("atom_map"), E.cZ),
        _opt(a.get("aromatic"), E.cb), _opt(a.get("hcount"), E.cZ), _opt(a.get("neighbors"), E.cnb),
        _opt(gh, lambda t: "(%s, %s)" % (E.coq_nattr(t[0]), E.coq_nattr(t[1]))))


def coq_xedge(a):
    if not {"order", "standard_order"} <= set(a) <= {"order", "standard_order", "is_mtg"}:
        raise TypeError("ITS edge attributes outside the model: %r" % sorted(a))
    oa, ob = a["order"]
    fl = a.get("is_mtg")
    if fl is not None and not isinstance(fl, bool):
        raise TypeError("is_mtg is not a bool: %r" % (fl,))
    return "(IE (%d) (%d) (%d), %s)" % (E.half(oa), E.half(ob), E.half(a["standard_order"]), _opt(fl, E.cb))


def coq_xits(g):
    ns = "; ".join("(%s, %s)" % (E.cN(n), coq_xnode(a)) for n, a in g["nodes"])
    es = "; ".join("(%s, %s, %s)" % (E.cN(u), E.cN(v), coq_xedge(a)) for u, v, a in g["edges"])
    return "(LG [%s] [%s])" % (ns, es)


def coq_keys(keys):
    """element_key -> keysel (strings that name no attribute of the model's nodes select nothing)"""
    ks = set(keys)
    return "(KS %s)" % " ".join("true" if k in ks else "false"
                                for k in ("element", "charge", "atom_map", "typesGH", "aromatic", "hcount", "neighbors"))


def coq_its_list(gs):
    return "[" + "; ".join(E.coq_its(g) for g in gs) + "]"


# ------------------------------------------------------------------ observables (mirror of txits in C02_Model.v)

def _o(d, k, f):
    return [f(d[k])] if k in d else []


def obs_xits(G):
    ns = []
    for n, d in G.nodes(data=True):
        odd = sorted(set(d) - set(XKEYS))
        row = [n, _o(d, "element", E.elem_code), _o(d, "charge", E._int), _o(d, "atom_map", E._int), _o(d, "aromatic", E._bool),
               _o(d, "hcount", E._int), _o(d, "neighbors", lambda l: [E.elem_code(x) for x in l]),
               _o(d, "typesGH", lambda t: [E.obs_nattr(t[0]), E.obs_nattr(t[1])])]
        if odd:
            row.append(odd)
        ns.append(row)
    es = []
    for u, v, d in G.edges(data=True):
        odd = sorted(set(d) - {"order", "standard_order", "is_mtg"}) + sorted("missing:" + k for k in ("order", "standard_order") if k not in d)
        oa, ob = d.get("order", (-99, -99))
        row = [min(u, v), max(u, v), E.half(oa), E.half(ob), E.half(d.get("standard_order", -99)), _o(d, "is_mtg", E._bool)]
        if odd:
            row.append(odd)
        es.append(row)
    return [S(ns), S(es)]


def obs_ctx(c):
    return [S(sorted(c.nodes)), S([[min(u, v), max(u, v)] for u, v in c.edges])]


# ------------------------------------------------------------------ canonical JSON (edge list = networkx iteration order)

def canon(g):
    """Rewrite the edge list in the order (and orientation) in which networkx iterates the edges of the graph built
    from g.  A fixed point: building the graph from the result iterates in list order, and every adjacency list
    is in list order, so that the model's [gedges]/[nbrs] orders are the implementation's."""
    G = E.to_nx(g)
    return {"nodes": [[n, a] for n, a in g["nodes"]], "edges": [[u, v, _js_attrs(d)] for u, v, d in G.edges(data=True)]}


def _js_attrs(d):
    return {k: E._js(v) for k, v in d.items()}


# ------------------------------------------------------------------ generators: option populations

GH_C = ["C", False, 0, 0, []]
GH_H = ["H", False, 0, 0, []]


def xnode(i, kind):
    """kind: 'C' | 'H' | 'C+' (charge differs in typesGH) | 'H+' | 'Hn' (hydrogen without typesGH) | 'Cn' | 'He' (no element key)"""
    el = kind[0]
    a = {"element": el, "charge": 0, "atom_map": i, "typesGH": [[el, False, 0, 0, []], [el, False, 0, 0, []]]}
    if kind.endswith("+"):
        a["typesGH"][1][3] = 1
    if kind.endswith("n"):
        del a["typesGH"]
    if kind.endswith("e"):
        del a["element"]
    return a


def xedge(state):
    """state = (a, b, flag) with flag in (None, False, True)"""
    a, b, fl = state
    d = {"order": [a, b], "standard_order": a - b}
    if fl is not None:
        d["is_mtg"] = fl
    return d


def gen_x_exhaustive():
    """ALL x-ITS graphs on 2 nodes over node kinds {C,H,C+,H+,Hn,Cn} and pair states {absent} + orders {(1,1),(1,2),(0,1),(2,2)} x
    is_mtg {absent,False,True}; on 3 nodes over node kinds {C,H,C+} and pair states {absent, unchanged, unchanged+is_mtg, changed}."""
    out = []
    kinds2 = ("C", "H", "C+", "H+", "Hn", "Cn")
    st2 = [None] + [(a, b, f) for (a, b) in ((1, 1), (1, 2), (0, 1), (2, 2)) for f in (None, False, True)]
    for ks in itertools.product(kinds2, repeat=2):
        for s in st2:
            out.append({"nodes": [[1, xnode(1, ks[0])], [2, xnode(2, ks[1])]], "edges": [] if s is None else [[1, 2, xedge(s)]]})
    kinds3 = ("C", "H", "C+")
    st3 = (None, (1, 1, None), (1, 1, True), (1, 2, None))
    pairs = ((1, 2), (1, 3), (2, 3))
    for ks in itertools.product(kinds3, repeat=3):
        for st in itertools.product(st3, repeat=3):
            out.append({"nodes": [[i + 1, xnode(i + 1, ks[i])] for i in range(3)],
                        "edges": [[u, v, xedge(s)] for (u, v), s in zip(pairs, st) if s is not None]})
    return out


KEY_CHOICES = (
    DEFAULT_KEYS,
    ["element", "charge", "atom_map"],                       # no typesGH: H-H fallback / forced copy shows
    ["typesGH"],
    ["element"],
    ["element", "charge", "typesGH", "atom_map", "hcount", "aromatic", "neighbors"],
    ["atom_map", "element", "element", "no_such_key"],
    [],
    ["typesGH", "atom_map", "charge", "element"],            # the default, permuted
)


def rand_x(rng, n):
    ids = rng.sample(range(0, max(40, 2 * n)), n)
    nodes = []
    extras = rng.random() < 0.4
    for i in ids:
        el = rng.choice(("C", "C", "H", "H", "O", "N", "C", "H", "Hg", "He"))                    # Hg / He: not hydrogens
        chg = rng.choice((0, 0, 0, 1, -1, 2, -3))
        chh = chg if rng.random() < 0.7 else rng.choice((0, 1, -1, 2, -2))
        tg = [el, rng.random() < 0.2, rng.choice((0, 1, 2)), chg, [rng.choice(("O", "H", "C")) for _ in range(rng.randint(0, 3))]]   # not sorted
        th = [el, tg[1], rng.choice((0, 1, 2)), chh, list(tg[4])]
        a = {"element": el, "charge": chg, "atom_map": i, "typesGH": [tg, th]}
        if extras:
            a.update(aromatic=tg[1], hcount=tg[2], neighbors=list(tg[4]))
        z = rng.random()
        if z < 0.12:
            del a["typesGH"]
        elif z < 0.16:
            del a["element"]
        elif z < 0.2:
            del a["charge"]
        nodes.append([i, a])
    have = {}
    order = list(range(n))
    rng.shuffle(order)
    for k in range(1, n):
        if rng.random() < 0.9:
            have[(order[k], order[rng.randrange(max(0, k - 2), k)])] = None
    for _ in range(rng.randint(0, 3)):
        i, j = rng.sample(range(n), 2)
        if (i, j) not in have and (j, i) not in have:
            have[(i, j)] = None
    edges = []
    for (i, j) in have:
        if rng.random() < 0.65:
            a = b = rng.choice((1, 1, 1.5, 2))
        else:
            a, b = rng.choice([(0, 1), (1, 0), (1, 2), (2, 1), (1, 1.5), (1.5, 1), (0, 2), (3, 1)])
        d = {"order": [a, b], "standard_order": a - b}
        if rng.random() < 0.12:
            d["standard_order"] = rng.choice((0, 0, 0.5, -1, 1))
        z = rng.random()
        if z < 0.3:
            d["is_mtg"] = True
        elif z < 0.5:
            d["is_mtg"] = False
        edges.append([ids[i], ids[j], d])
    rng.shuffle(edges)
    rng.shuffle(nodes)
    return {"nodes": nodes, "edges": edges}


# ------------------------------------------------------------------ reaction-string rewriters (multi-digit maps, ring closures >= 10)

_MAP = re.compile(r":(\d+)\]")


def renumber_into(rsmi, rng, lo, hi):
    """injective PRNG renumbering of the atom maps into lo..hi-1 (textual, both sides)"""
    ms = sorted({int(m) for m in _MAP.findall(rsmi)})
    new = rng.sample(range(lo, max(hi, lo + len(ms) + 3)), len(ms))
    table = dict(zip(ms, new))
    return _MAP.sub(lambda m: ":%d]" % table[int(m.group(1))], rsmi)


_RING = re.compile(r"(\[[^\]]*\])|(%\d\d)|(\d)")


def ring_digits_plus(rsmi, shift=10):
    """rewrite every ring-closure digit d (outside brackets) as %(d+shift): the same molecule graph, two-digit closures.
    Returns None when the string has no ring closure."""
    seen = [False]

    def sub(m):
        if m.group(1):
            return m.group(1)
        seen[0] = True
        d = int(m.group(2)[1:]) if m.group(2) else int(m.group(3))
        return "%%%02d" % (d + shift)
    a, b = rsmi.split(">>")
    out = _RING.sub(sub, a) + ">>" + _RING.sub(sub, b)
    return out if seen[0] else None
